"""History tables: sequences of whole messages against the documented device, folded end to end.

The witness device of `witness/wiring` (ESR/ESE/SRE bytes, OPERation and QUEStionable register sets, a fixed-capacity
error queue, wired the way the README says) and the command tree it declares with the library's macros are evaluated as
constants; `Node::run(&TREE, message, &mut dev, &mut context, &mut response)` is then folded by the FDAI engine for one
message after the other on the *same* device value. Everything between the message bytes and the device's fields is
workspace code analysed in place: tokenizer, dispatcher, `Parameters` and the typed conversions, the `Command` impls of
scpi-contrib selected by the handler type the tree names, the provided methods of `ScpiDevice` / `IEEE4882` / `ErrorQueue`,
the witness device's own trait impls, `EventRegister`, the queue impl, `ResponseUnit`, the `ResponseData` writers and the
`Vec<u8>` formatter. Contract models: `Peekable`, the containers (`ArrayVec` queue, `Vec` buffer), lexical-core's integer
parser / writer, and `core`.

The outcome of every message - result, response bytes - and the device state after it are compared with a reference model
of the IEEE 488.2 / SCPI-99 status system written from the standards (`RefDevice`), which also applies the device-side
events of a history (condition changes, message-available flag)."""
import re
from .. import facts, fdai, scpi_models as M
from ..fdai import EnumV, AggV, K, SymV, RefV, Cell, Loc, TOP, BytesV, FnV, ListV, load, store, mk_option, mk_ok, mk_err, UNIT
from . import msgtable as MT, devmodel as DM

_C = {}
DEV = "witness_wiring::Dev"
TRAITS = ("scpi::Device", "scpi_contrib::scpi1999::ScpiDevice", "scpi_contrib::ieee488::IEEE4882", "scpi::error::ErrorQueue", "scpi_contrib::scpi1999::GetEventRegister")


def prog():
    if "P" not in _C:
        _C["P"] = facts.Merged(facts.program("dflt"), facts.program("witness"))
    return _C["P"]


def _handler_type(eng, st, v):
    loc, h = MT._loc_of(eng, st, v)
    if isinstance(h, AggV):
        k = h.kind
        if k.startswith("new:"):
            k = k[4:]
        return k
    return None


def _split_type(k):
    """'a::b::EventCommand<T><x::Operation>' -> ('a::b::EventCommand', 'Operation')"""
    base = k.split("<")[0]
    garg = k.rsplit("<", 1)[-1].rstrip(">").split("::")[-1] if "<" in k else ""
    return base, ("" if garg in ("T", "") else garg)


def m_command(form):
    def m(eng, st, fr, t, name, rname, args):
        k = _handler_type(eng, st, args[0])
        if k is None:
            return NotImplemented
        base, garg = _split_type(k)
        short = base.split("::")[-1]
        bs = [b for b in _C["cmd_bodies"] if b.name == form and (b.impl_self or "").split("<")[0].split("::")[-1] == short]
        if not bs:
            # the type leaves this form to the trait's provided method
            bs = [b for b in eng.program.unit("scpi").bodies if b.name == form and b.in_trait and b.in_trait.split("<")[0].endswith("Command") and b.npath.startswith("scpi::tree::command::Command::")]
        if len(bs) != 1:
            st.trace.append(fdai.Event("call", "Command::%s for %s (%d impls)" % (form, short, len(bs)), None, (), fr.bi, "?", len(st.frames), "?"))
            return st.fresh(("no-handler-impl", short))
        st.extra.setdefault("calls", []).append((short + ("<%s>" % garg if garg else ""), form))
        saved = st.extra.get("handler_garg")
        st.extra["handler_garg"] = garg
        out = []
        for s2, v in eng.call_closure(st, fr, FnV(bs[0].npath), list(args), t):
            s2.extra["handler_garg"] = saved
            out.append((s2, v))
        return out
    return m


def dev_redirect(trait, method):
    """a trait method called on the generic device goes to the witness device's impl of it or, where it has none, to the
    trait's provided method"""
    def red(eng, st, t, name, args):
        loc, recv = MT._loc_of(eng, st, args[0]) if args else (None, None)
        if not (isinstance(recv, AggV) and recv.kind == DEV):
            return None            # the same trait implemented by something else (the queue type itself): resolved normally
        if trait.endswith("GetEventRegister"):
            c = t["callee"] if t is not None else {}
            texts = [" ".join(str(x) for x in (c.get("gargs") or ())) + " " + str(c.get("trait") or "")]
            texts += [" ".join(str(x) for x in f.gargs) for f in reversed(st.frames)]
            texts.append(st.extra.get("handler_garg") or "")
            which = None
            for g in texts:
                if "Questionable" in g:
                    which = "Questionable"
                    break
                if "Operation" in g:
                    which = "Operation"
                    break
            return _C["dev_methods"].get((trait, method, which))
        return _C["dev_methods"].get((trait, method, None))
    return red


def m_write_int(eng, st, fr, t, name, rname, args):
    """lexical_core::write::<T>(value, buffer) for integers: the decimal digits (contract; the digit strings themselves
    are lexical-core's)"""
    v = eng.resolve(st, args[0])
    if not (isinstance(v, K) and isinstance(v.v, int) and not isinstance(v.v, bool)):
        return NotImplemented
    return RefV(Cell(BytesV(str(v.v).encode()), "digits"), (), True)


def m_format_buf(eng, st, fr, t, name, rname, args):
    """`ResponseData::format_response_data(&value, fmt)` on a generic value: the impl for the value's type"""
    loc, v = MT._loc_of(eng, st, args[0])
    if v is None:
        v = eng.resolve(st, args[0])
    ty = None
    g = eng.concrete_gargs(st, t["callee"]) if t is not None else ()
    for x in g:
        ty = str(x)
        break
    return NotImplemented


def rd_redirect(eng, st, t, name, args):
    """`value.format_response_data(fmt)` on a generic value goes to the ResponseData impl of the value's concrete type
    (known from the generic arguments of the enclosing analysed-in-place calls)"""
    idx = _C.get("rd_impls")
    if idx is None:
        idx = {}
        for u in eng.program.units:
            for b in u.bodies:
                if b.name == "format_response_data" and b.impl_trait and "ResponseData" in b.impl_trait and b.kind == "AssocFn":
                    idx.setdefault(fdai._norm_ty(b.impl_self or ""), b)
        _C["rd_impls"] = idx
    g = [fdai._norm_ty(x) for x in eng.concrete_gargs(st, (t or {}).get("callee") or {})]
    if not g:
        return None
    ty = g[0]
    if ty in idx:
        return idx[ty]
    # references and lifetimes: `&'a [u8]`, `error::Error` vs `scpi::error::Error`
    for k, b in idx.items():
        if k.split("::")[-1] == ty.split("::")[-1] and ("::" in k or "::" in ty):
            return b
    return None


def engine():
    if "eng" in _C:
        return _C["eng"]
    from . import lexer as LX, convert as CV, c12 as Q
    MT.engine()
    P = prog()
    uw = P.unit("witness_wiring")
    us = P.unit("scpi")
    uc = P.unit("scpi_contrib")
    from . import emit as E
    ms = dict(E.engine().models)          # the writers' models of C09 (lexical-core's integer writer, as_bytes, is_ascii, concat ...)
    ms.update(MT._C["eng"].models)
    for k, v in Q.container_models().items():
        if k.startswith(("arrayvec::ArrayVec::", "alloc::vec::Vec::")) or k.startswith("core::ops::Deref"):
            # queue (a list of entries) and byte buffer share the container's method names: try the buffer first
            prev = ms.get(k)
            ms[k] = M._or(prev, v) if prev is not None else v
    ms["lexical_core::parse"] = CV.m_lexical_parse_int
    ms["core::convert::TryFrom::try_from"] = CV.m_int_try_from
    ms["core::convert::TryInto::try_into"] = CV.m_int_try_from
    ms["lexical_core::write"] = M._or(E.m_write_usize(), m_write_int)
    ms["scpi::tree::command::Command::event"] = m_command("event")
    ms["scpi::tree::command::Command::query"] = m_command("query")
    ms.pop("scpi::Device::handle_error", None)
    ms.pop("scpi::parser::response::ResponseData::format_response_data", None)

    def inl(n, r):
        if r.startswith(("scpi::", "scpi_contrib::", "witness_wiring::")):
            return True
        return r.startswith("<") and any(x in r for x in ("scpi", "parser::", "error::", "tree::", "Dev as", "ieee488", "scpi1999"))
    eng = fdai.Engine(P, us, inline=inl, models=ms, loop_limit=400, max_paths=8, max_depth=60)
    eng.inline_fn_values = True
    for b in us.trait_methods_for("parser::response::Formatter", "alloc::vec::Vec").values():
        eng.redirect["scpi::parser::response::Formatter::" + b.name] = MT.formatter_redirect(b.name)
    for k in ("core::convert::TryInto::try_into", "core::convert::TryFrom::try_from", "core::convert::Into::into", "core::convert::From::from"):
        eng.redirect[k] = fdai.conversion_redirect
    eng.redirect["scpi::parser::response::ResponseData::format_response_data"] = rd_redirect
    # handlers
    _C["cmd_bodies"] = [b for b in uc.bodies if b.kind == "AssocFn" and "Command" in (b.impl_trait or "") and b.name in ("event", "query", "meta")]
    # device trait methods: impl in the witness, else provided by the trait
    dm = {}
    for tr in TRAITS:
        tail = tr.split("::", 1)[1]          # "Device", "scpi1999::ScpiDevice", ...
        for u in (us, uc):
            for b in u.bodies:
                if b.kind == "AssocFn" and b.in_trait and (b.in_trait.split("<")[0] == tail or b.in_trait.split("<")[0].endswith("::" + tail)) and b.npath.startswith(tr + "::"):
                    dm.setdefault((tr, b.name, None), b)
                    if tr.endswith("GetEventRegister"):
                        for w in ("Operation", "Questionable"):
                            dm.setdefault((tr, b.name, w), b)
        for b in uw.bodies:
            it = b.impl_trait or ""
            if b.kind == "AssocFn" and (b.impl_self or "").endswith("Dev") and (" as " + tr) in it:
                which = "Questionable" if "Questionable" in it else "Operation" if "Operation" in it else None
                dm[(tr, b.name, which)] = b
    _C["dev_methods"] = dm
    names = {(tr, m_) for (tr, m_, w) in dm}
    for tr, m_ in names:
        eng.redirect[tr + "::" + m_] = dev_redirect(tr, m_)
    nexts = us.impl_methods("core::iter::Iterator", "next", "tokenizer::Tokenizer")
    _C["tk_next"] = nexts[0]
    _C["eng"] = eng
    return eng


def tree_value():
    if "tree" in _C:
        return _C["tree"]
    P = facts.program("witness")
    u = P.unit("witness_wiring")
    bs = [b for b in u.bodies if b.path.endswith("::TREE")]
    if len(bs) != 1:
        raise facts.AnchorLost("const TREE in witness_wiring")
    eng = fdai.Engine(P, u, inline=lambda n, r: True, models=dict(M.FOLD_MODELS), loop_limit=50, max_paths=8, max_depth=30)
    res = eng.run(bs[0], [])
    if len(res) != 1 or res[0].outcome != "return":
        raise facts.AnchorLost("TREE does not evaluate to a constant")
    _C["tree"] = res[0].retval
    return _C["tree"]


def mk_device(esr=0, ese=0, sre=0, oper=None, ques=None, queue=()):
    P = prog()
    uw = P.unit("witness_wiring")
    uc = P.unit("scpi_contrib")
    adt = uw.adts.get(DEV)
    if adt is None:
        raise facts.AnchorLost("struct " + DEV)
    vals = {"esr": K(esr), "ese": K(ese), "sre": K(sre), "operation": DM.mk_register(uc, **(oper or {"ptr_filter": 0x7FFF})).v, "questionable": DM.mk_register(uc, **(ques or {"ptr_filter": 0x7FFF})).v,
            "errors": ListV([Cell(e, "q%d" % i) for i, e in enumerate(queue)])}
    fields = {}
    for i, f in enumerate(adt["variants"][0]["fields"]):
        if f["name"] not in vals:
            raise facts.AnchorLost("field %s of the witness device" % f["name"])
        fields[i] = vals[f["name"]]
    return AggV(DEV, fields), [f["name"] for f in adt["variants"][0]["fields"]]


def dev_state(eng, st, devv, names):
    uc = prog().unit("scpi_contrib")
    out = {}
    for i, n in enumerate(names):
        v = devv.fields.get(i)
        if n in ("esr", "ese", "sre"):
            out[n] = v.v if isinstance(v, K) else repr(v)
        elif n in ("operation", "questionable"):
            out[n] = DM.reg_values(uc, Cell(v))
        elif n == "errors":
            out[n] = [tuple(sorted(M.err_codes(mk_err(c.v)))) + ((_ext(eng, st, c.v),) if _ext(eng, st, c.v) else ()) for c in v.cells] if isinstance(v, ListV) else repr(v)
    return out


def _ext(eng, st, e):
    if isinstance(e, AggV):
        x = e.fields.get(1)
        if isinstance(x, EnumV) and x.name == "Some":
            b = M._bytes_of(eng, st, x.fields.get(0))
            return bytes(b) if b is not None else "?"
    return None


def run_history(messages, dev0=None, mav=False, cap=8):
    """fold the messages one after the other on one device; -> list of dict(result, out, state) | ("undecided", i, why)"""
    eng = engine()
    body = eng.unit.body("scpi::tree::Node::run")
    root = Cell(tree_value(), "root")
    devv, names = dev0 if dev0 is not None else mk_device()
    devcell = Cell(devv, "device")
    out = []
    for i, item in enumerate(messages):
        if isinstance(item, tuple) and item[0] == "cond":
            # device-side event: EventRegister::set_condition(new) on one register set
            continue
        msg = item
        st = fdai.State()
        st.extra["cap"] = cap
        st.extra["calls"] = []
        buf = Cell(MT.mk_buf(None), "response")
        st.extra["buf"] = buf
        st.extra["devcell"] = devcell
        ctx = DM.context_value(mav)
        args = [RefV(root), M._mkslice(msg, 0), RefV(devcell, (), True), RefV(Cell(ctx, "context"), (), True), RefV(buf, (), True)]
        try:
            rs = eng.run(body, args, st)
        except (fdai.TooManyPaths, RecursionError) as e:
            return ("undecided", i, type(e).__name__)
        if len(rs) != 1 or rs[0].outcome != "return":
            return ("undecided", i, "%d paths: %s" % (len(rs), [(r.outcome, M.outcome(r)) for r in rs][:4]))
        r = rs[0]
        res = r.retval
        result = "Ok" if isinstance(res, EnumV) and res.name == "Ok" else (tuple(sorted(M.err_codes(res))) or ("?",))
        devcell = r.extra["devcell"]
        b = r.extra["buf"]
        out.append({"result": result, "out": MT._content(b.v) if isinstance(b.v, AggV) else None, "state": dev_state(eng, r, devcell.v, names), "calls": r.extra.get("calls")})
    return out


# ---------------------------------------------------------------------------------------------------------------------
# device-side events
# ---------------------------------------------------------------------------------------------------------------------
def apply_condition(devcell, names, which, value):
    """the device reports a new condition word for one register set: EventRegister::set_condition folded on that set"""
    eng = engine()
    uc = prog().unit("scpi_contrib")
    b = uc.body("scpi_contrib::scpi1999::EventRegister::set_condition")
    idx = names.index("operation" if which == "Operation" else "questionable")
    st = fdai.State()
    st.extra["devcell"] = devcell
    rs = eng.run(b, [RefV(devcell, (idx,), True), K(value)], st)
    if len(rs) != 1 or rs[0].outcome != "return":
        return None
    return rs[0].extra["devcell"]


# ---------------------------------------------------------------------------------------------------------------------
# reference model of the IEEE 488.2 / SCPI-99 status system (IEEE 488.2 10.x, 11; SCPI-99 vol. 1 9, vol. 2 20, 21)
# ---------------------------------------------------------------------------------------------------------------------
class RefError(Exception):
    def __init__(self, code):
        self.code = code


def _errors():
    if "errs" not in _C:
        import json, os
        j = json.load(open(os.path.join(os.path.dirname(os.path.dirname(os.path.dirname(os.path.abspath(__file__)))), "oracle", "errors.json")))
        _C["errs"] = {e["variant"]: (e["code"], e["message"]) for e in j["errors"]}
    return _C["errs"]


def class_bit(code):
    if -99 <= code <= 0:
        return 0
    for lo, hi, bit in ((-199, -100, 0x20), (-299, -200, 0x10), (-399, -300, 0x08), (-499, -400, 0x04), (-599, -500, 0x80), (-699, -600, 0x40), (-799, -700, 0x02), (-899, -800, 0x01)):
        if lo <= code <= hi:
            return bit
    return 0x08


class RefDevice:
    def __init__(self, cap=8):
        self.esr = self.ese = self.sre = 0
        self.queue = []
        self.cap = cap
        self.regs = {w: {"condition": 0, "event": 0, "enable": 0, "ntr_filter": 0, "ptr_filter": 0x7FFF} for w in ("Operation", "Questionable")}

    def push(self, variant):
        code = _errors()[variant][0]
        self.esr |= class_bit(code)
        if len(self.queue) >= self.cap:
            self.queue[-1] = "QueueOverflow"
        else:
            self.queue.append(variant)

    def item(self, variant):
        c, m = _errors()[variant]
        return b"%d,\"%s\"" % (c, m.encode())

    def summary(self, w):
        r = self.regs[w]
        return (r["event"] & r["enable"] & 0x7FFF) != 0

    def stb(self, mav):
        s = (4 if self.queue else 0) | (8 if self.summary("Questionable") else 0) | (0x80 if self.summary("Operation") else 0) | (0x10 if mav else 0) | (0x20 if self.esr & self.ese else 0)
        if s & self.sre & 0xBF:
            s |= 0x40
        return s

    def set_condition(self, w, new):
        r = self.regs[w]
        old = r["condition"]
        r["event"] |= ((~old & new) & r["ptr_filter"]) | ((old & ~new) & r["ntr_filter"])
        r["event"] &= 0xFFFF
        r["condition"] = new

    def state(self):
        return {"esr": self.esr, "ese": self.ese, "sre": self.sre, "operation": dict(self.regs["Operation"]), "questionable": dict(self.regs["Questionable"]), "errors": [(q,) for q in self.queue]}

    def u(self, args, lo, hi):
        """one required unsigned parameter in lo..hi; more -> the handler runs, then -108"""
        if not args:
            raise RefError("MissingParameter")
        a = args[0]
        if not isinstance(a, int):
            raise RefError("DataTypeError")
        if not (lo <= a <= hi):
            raise RefError("DataOutOfRange")
        return a

    def execute(self, name, args, mav):
        """one unit; -> response bytes or None; raises RefError"""
        n = name
        surplus = None
        resp = None
        if n in ("*ESE", "*SRE"):
            v = self.u(args, 0, 255)
            if n == "*ESE":
                self.ese = v
            else:
                self.sre = v
            surplus = args[1:]
        elif n in ("*ESE?", "*SRE?", "*ESR?", "*STB?", "*OPC?", "*TST?", "*IDN?", "SYST:VERS?", "SYST:ERR?", "SYST:ERR:ALL?", "SYST:ERR:COUN?"):
            surplus = args
            if n == "*ESE?":
                resp = b"%d" % self.ese
            elif n == "*SRE?":
                resp = b"%d" % self.sre
            elif n == "*ESR?":
                resp = b"%d" % self.esr
                self.esr = 0
            elif n == "*STB?":
                resp = b"%d" % self.stb(mav)
            elif n == "*OPC?":
                resp = b"1"
            elif n == "*TST?":
                resp = b"0"
            elif n == "*IDN?":
                resp = b"a,b,c,d"
            elif n == "SYST:VERS?":
                resp = b"1999.0"
            elif n == "SYST:ERR?":
                resp = self.item(self.queue.pop(0)) if self.queue else self.item("NoError")
            elif n == "SYST:ERR:ALL?":
                resp = b",".join(self.item(q) for q in self.queue) if self.queue else self.item("NoError")
                self.queue = []
            elif n == "SYST:ERR:COUN?":
                resp = b"%d" % len(self.queue)
        elif n in ("*CLS", "*OPC", "*RST", "*WAI", "STAT:PRES"):
            surplus = args
            if n == "*CLS":
                self.esr = 0
                self.queue = []
                for r in self.regs.values():
                    r["event"] = 0
            elif n == "*OPC":
                self.push("OperationComplete")
            elif n == "STAT:PRES":
                for r in self.regs.values():
                    r["enable"] = 0
                    r["ptr_filter"] = 0xFFFF
                    r["ntr_filter"] = 0
        else:
            m = re.match(r"STAT:(OPER|QUES):(EVEN|COND|ENAB|NTR|PTR)(\??)$", n)
            if not m:
                raise RefError("UndefinedHeader")
            r = self.regs["Operation" if m.group(1) == "OPER" else "Questionable"]
            f = {"EVEN": "event", "COND": "condition", "ENAB": "enable", "NTR": "ntr_filter", "PTR": "ptr_filter"}[m.group(2)]
            if m.group(3):
                surplus = args
                resp = b"%d" % (r[f] & 0x7FFF)
                if f == "event":
                    r["event"] = 0
            else:
                if f in ("event", "condition"):
                    raise RefError("UndefinedHeader")
                r[f] = self.u(args, 0, 65535)
                surplus = args[1:]
        if surplus:
            raise RefError("ParameterNotAllowed")
        return resp

    def run(self, units, mav):
        """a whole message; -> (result, response bytes or None)"""
        out = []
        for name, args in units:
            try:
                r = self.execute(name, args, mav)
            except RefError as e:
                self.push(e.code)
                return (e.code,), None
            if r is not None:
                out.append(r)
        return "Ok", (b";".join(out) + b"\n") if out else b""


LONG = {"SYST": "SYSTem", "ERR": "ERRor", "COUN": "COUNt", "VERS": "VERSion", "STAT": "STATus", "OPER": "OPERation", "QUES": "QUEStionable", "EVEN": "EVENt", "COND": "CONDition", "ENAB": "ENABle",
        "NTR": "NTRansition", "PTR": "PTRansition", "PRES": "PRESet", "ALL": "ALL", "NEXT": "NEXT"}


def render_units(units, style=0):
    parts = []
    for i, (name, args) in enumerate(units):
        q = name.endswith("?")
        hdr = name.rstrip("?")
        ms = hdr.split(":")
        if style % 3 == 1:
            ms = [LONG.get(m, m) for m in ms]
        elif style % 3 == 2:
            ms = [m.lower() for m in ms]
        if name in ("SYST:ERR?",) and style % 2:
            ms = ms + ["NEXT" if style % 3 != 2 else "next"]
        if hdr.startswith("STAT:") and hdr.endswith(":EVEN") and style % 2 == 0:
            ms = ms[:-1]
        txt = ":".join(ms) + ("?" if q else "")
        if i and not name.startswith("*"):
            txt = ":" + txt                      # every unit of a history message is absolute (relative paths are C02's business)
        if args:
            txt += " " + ",".join(a if isinstance(a, str) else "%d" % a if (style % 4 or a < 0) else "#H%X" % a for a in args)
        parts.append(txt)
    return ";".join(parts).encode()


# ---------------------------------------------------------------------------------------------------------------------
# histories
# ---------------------------------------------------------------------------------------------------------------------
class Rng:
    def __init__(self, seed):
        self.s = seed & 0xFFFFFFFF

    def next(self, n):
        self.s = (self.s * 1103515245 + 12345) & 0x7FFFFFFF
        return (self.s >> 8) % n

    def pick(self, xs):
        return xs[self.next(len(xs))]


WORDS16 = [0, 1, 2, 0x10, 0x100, 0x0F0F, 0x00FF, 0x7FFF, 0x8000, 0xFFFF, 0x4000, 0x8001, 0x5555, 0x2AAA, 3, 0x0300]
BYTES8 = [0, 1, 4, 8, 16, 32, 36, 60, 64, 128, 255, 0x7C, 0xB5]
FAILS = [[("FOO", [])], [("*ESE", [])], [("*CLS", [1])], [("*ESE", [256])], [("*SRE", ['"x"'])], [("*ESE", [5, 6])], [("*ESE", [1]), ("BAR", [])], [("*SRE", [-1])], [("SYST:ERR:COUN?", [3])], [("STAT:OPER:ENAB", [65536])],
         [("*ESR?", []), ("STAT:NOPE", [])], [("STAT:QUES:PTR", [])], [("*IDN", [])]]


def pool(kind, rng):
    """one step of a history: ("msg", units, mav) | ("cond", which, value)"""
    k = rng.next(100)
    w = rng.pick(["OPER", "QUES"])
    if kind == "errors":
        if k < 38:
            return ("msg", rng.pick(FAILS), False)
        if k < 50:
            return ("msg", [("SYST:ERR?", [])], False)
        if k < 58:
            return ("msg", [("SYST:ERR:COUN?", [])], False)
        if k < 64:
            return ("msg", [("SYST:ERR:ALL?", [])], False)
        if k < 74:
            return ("msg", [("*ESR?", [])], False)
        if k < 80:
            return ("msg", [("*OPC", [])], False)
        if k < 85:
            return ("msg", [("*CLS", [])], False)
        if k < 90:
            return ("msg", [("*STB?", []), ("SYST:ERR:COUN?", [])], False)
        if k < 95:
            return ("msg", [("*ESE", [rng.pick(BYTES8)]), ("*ESE?", [])], False)
        return ("msg", [("SYST:ERR?", []), ("SYST:ERR?", [])], False)
    if kind == "registers":
        if k < 30:
            return ("cond", "Operation" if w == "OPER" else "Questionable", rng.pick(WORDS16))
        if k < 45:
            return ("msg", [("STAT:%s:%s" % (w, rng.pick(["ENAB", "PTR", "NTR"])), [rng.pick(WORDS16)])], False)
        if k < 60:
            return ("msg", [("STAT:%s:EVEN?" % w, [])], False)
        if k < 70:
            return ("msg", [("STAT:%s:COND?" % w, []), ("STAT:%s:EVEN?" % w, [])], False)
        if k < 80:
            return ("msg", [("STAT:%s:%s?" % (w, rng.pick(["ENAB", "PTR", "NTR"])), [])], False)
        if k < 86:
            return ("msg", [("STAT:PRES", [])], False)
        if k < 91:
            return ("msg", [("*CLS", [])], False)
        if k < 96:
            return ("msg", [("*STB?", [])], False)
        return ("msg", rng.pick(FAILS), False)
    # status byte and common commands
    mav = rng.next(3) == 0
    if k < 14:
        return ("msg", [("*STB?", [])], mav)
    if k < 26:
        return ("msg", [("*ESE", [rng.pick(BYTES8)])], mav)
    if k < 38:
        return ("msg", [("*SRE", [rng.pick(BYTES8)])], mav)
    if k < 44:
        return ("msg", [("*ESE?", []), ("*SRE?", []), ("*STB?", [])], mav)
    if k < 54:
        return ("msg", rng.pick(FAILS), mav)
    if k < 60:
        return ("msg", [("*OPC", [])], mav)
    if k < 64:
        return ("msg", [("*OPC?", []), ("*TST?", [])], mav)
    if k < 68:
        return ("msg", [(rng.pick(["*RST", "*WAI"]), []), ("*STB?", [])], mav)
    if k < 74:
        return ("msg", [("*CLS", [])], mav)
    if k < 80:
        return ("msg", [("*ESR?", []), ("*STB?", [])], mav)
    if k < 88:
        return ("cond", "Operation" if w == "OPER" else "Questionable", rng.pick(WORDS16))
    if k < 93:
        return ("msg", [("STAT:%s:ENAB" % w, [rng.pick(WORDS16)])], mav)
    if k < 96:
        # PRESet touches the OPERation / QUEStionable enables and filters only: *ESE and *SRE read back as written (seed C16-O)
        return ("msg", [("STAT:PRES", []), ("*ESE?", []), ("*SRE?", []), ("*STB?", [])], mav)
    if k < 98:
        return ("msg", [("SYST:ERR?", [])], mav)
    return ("msg", [("STAT:%s:EVEN?" % w, []), ("*STB?", [])], mav)


def history(kind, seed, length):
    rng = Rng(seed * 7919 + {"errors": 1, "registers": 2, "status": 3}[kind])
    steps = [pool(kind, rng) for _ in range(length)]
    if kind == "errors" and seed % 3 == 0:
        # drive the queue to and beyond its capacity
        steps = [("msg", rng.pick(FAILS), False) for _ in range(8 + seed % 4)] + steps
    return steps


def check_history(kind, seed, length):
    """-> None | description of the first disagreement between the folded history and the reference model"""
    eng = engine()
    body = eng.unit.body("scpi::tree::Node::run")
    root = Cell(tree_value(), "root")
    devv, names = mk_device()
    devcell = Cell(devv, "device")
    ref = RefDevice(8)
    n = 0
    for i, step in enumerate(history(kind, seed, length)):
        if step[0] == "cond":
            ref.set_condition(step[1], step[2])
            devcell = apply_condition(devcell, names, step[1], step[2])
            if devcell is None:
                return n, "step %d (condition of %s := %#06x): set_condition undecided" % (i, step[1], step[2])
            where = "after the %s condition became %#06x" % (step[1], step[2])
            got_state = dev_state(eng, fdai.State(), devcell.v, names)
        else:
            _, units, mav = step
            msg = render_units(units, style=seed + i)
            n += 1
            st = fdai.State()
            st.extra["cap"] = 8
            st.extra["calls"] = []
            buf = Cell(MT.mk_buf(None), "response")
            st.extra["buf"] = buf
            st.extra["devcell"] = devcell
            args = [RefV(root), M._mkslice(msg, 0), RefV(devcell, (), True), RefV(Cell(DM.context_value(mav), "context"), (), True), RefV(buf, (), True)]
            eng.step_budget, eng._steps_used, eng._forks_used = 16000, 0, 0
            try:
                rs = eng.run(body, args, st)
            except (fdai.TooManyPaths, RecursionError) as e:
                return n, "step %d %r: undecided (%s)" % (i, msg, type(e).__name__)
            if len(rs) != 1 or rs[0].outcome != "return":
                return n, "step %d %r: undecided (%d paths: %s)" % (i, msg, len(rs), [(r.outcome, M.outcome(r)) for r in rs][:3])
            r = rs[0]
            res = r.retval
            result = "Ok" if isinstance(res, EnumV) and res.name == "Ok" else (tuple(sorted(M.err_codes(res))) or ("?",))
            devcell = r.extra["devcell"]
            out = MT._content(r.extra["buf"].v) if isinstance(r.extra["buf"].v, AggV) else None
            exp_res, exp_out = ref.run(units, mav)
            where = "after %r%s" % (msg, " (message available)" if mav else "")
            if result != exp_res:
                return n, "step %d %s: returns %s, expected %s" % (i, where, result, exp_res)
            if exp_out is not None and out != exp_out:
                return n, "step %d %s: answers %r, expected %r" % (i, where, out, exp_out)
            got_state = dev_state(eng, r, devcell.v, names)
        exp_state = ref.state()
        if got_state != exp_state:
            diff = {k: (got_state.get(k), exp_state[k]) for k in exp_state if got_state.get(k) != exp_state[k]}
            return n, "step %d %s: device state %s (got, expected)" % (i, where, diff)
    return n, None


def check(R, rule, kind, tier, what, floor):
    n_h = {"quick": 12, "thorough": 150}[tier]
    length = {"quick": 14, "thorough": 24}[tier]
    bad = []
    total = 0
    for seed in range(n_h):
        if sum(1 for b_ in bad if "undecided" in b_) > 2:
            bad.append("history %d: undecided: not evaluated (the first histories are undecided)" % seed)
            continue
        try:
            n, d = check_history(kind, seed, length)
        except facts.AnchorLost as e:
            R.anchor_lost(rule, str(e))
            return
        total += n
        if d:
            bad.append("history %d: %s" % (seed, d))
    R.check(not bad, rule, "histories:" + kind, "%s (%d histories, %d messages folded end to end on one device each; result, response and device state equal to the reference model after every step)" % (what, n_h, total),
            "; ".join(bad[:3]) + (" (+%d more)" % (len(bad) - 3) if len(bad) > 3 else ""))
    R.count("history_messages_" + kind, total)
    R.floor(rule, "messages in histories (%s)" % kind, total, floor)
