"""C05 - units run in order; the first error aborts the message and is reported once."""
from .. import facts, fdai, scpi_models as M, sym
from ..fdai import EnumV, AggV, K, SymV, RefV, Cell, Loc, TOP, load
from . import dispatch as D

LEVEL = "other"
TECHNIQUE = 'FDAI path enumeration of Node::run, run_tokens, exec and ResponseUnit::{header,data,finish}: error-hook exactly-once table, abort-after-first-error, no-dropped-error discipline over every fallible call, response-unit error latch, who-may-call census for Device::handle_error, forward-only token stream; write discipline of Formatter::response_unit (both formatters) and of every ResponseData writer of the workspace: the result of each fallible write is branched on (its Err returned) or is the return value; leaf exec with unread parameters left in the unit; Parameters never consumes a lexical error it reports; whole-message tables (sa/rules/msgtable.py): Node::run folded end to end on concrete messages against a concrete tree with the real tokenizer, dispatcher, Parameters, ResponseUnit and formatter impl analysed in place and scripted handlers, compared with a reference execution written from SCPI-99 6.2.4 / IEEE 488.2 7-8 - messages of one to four units in which one unit fails for each kind of reason in each position: units before it ran once in order, nothing after it ran, that error returned and handed to the hook exactly once; empty units (`A;;B`) after every kind of unit'
LEVEL_TEXT = "Structural decision over all paths of the four dispatcher functions: every abstract path that returns Err was checked to hand exactly that error to Device::handle_error exactly once (and Ok paths never), no path continues with another unit or handler after a failed call, every call that can fail is propagated, and the response unit latches its first error. The paths are enumerated by abstract interpretation over token classes, not by running messages."
LEVEL_NOTE = "Not decided: conduct of user handlers; user Formatter/Device impls. Trusted: rustc MIR, FDAI models of Try/FromResidual/Option/Result combinators and of Peekable."

HOOK = "scpi::Device::handle_error"


def run(R, tier):
    R.configs.append("dflt")
    P = D.prog()
    u = P.unit("scpi")

    # ---- R05.1 hook exactly once -----------------------------------------------------------------
    paths = D.run_paths()
    R.count("run_paths", len(paths))
    n_ok = n_err = 0
    for i, p in enumerate(paths):
        names = p.call_names
        n_rt = sum(1 for n in names if n.endswith("Node::run_tokens"))
        hooks = [e for e in p.calls if e.name.endswith("Device::handle_error")]
        others = [n for n in names if not n.endswith(("Node::run_tokens", "Device::handle_error", "Tokenizer::new", "Iterator::peekable"))]
        v = p.r.retval
        if isinstance(v, EnumV) and v.name == "Ok":
            n_ok += 1
            R.check(n_rt == 1 and not hooks and not others, "R05.1", "run:ok-path#%d" % n_ok, "success: run_tokens once, hook never called", "on a successful message the error hook must not be called and nothing else may run: %s" % p.describe())
        elif isinstance(v, EnumV) and v.name == "Err":
            n_err += 1
            payload = fdai.snapshot(v.fields.get(0))
            same = len(hooks) == 1 and hooks[0].args[1] == payload
            # the error returned is the one run_tokens produced
            from_rt = "run_tokens" in repr(payload)
            R.check(n_rt == 1 and same and from_rt and not others, "R05.1", "run:err-path#%d" % n_err, "failure: hook called exactly once with the returned error, which is run_tokens' error", "on a failed message the hook must receive exactly the returned error exactly once (and that error must be run_tokens' result): %s hook-args=%s returned=%s" % (p.describe(), [h.args[1] for h in hooks], payload))
        else:
            R.violation("R05.1", "run:path#%d" % i, "Node::run returns something that is not the run_tokens result: %s" % p.describe())
    R.floor("R05.1", "run paths (ok+err)", n_ok + n_err, 2)
    R.check(n_ok >= 1 and n_err >= 1, "R05.1", "run:both-outcomes", "both outcomes analysed", "Node::run has no Ok or no Err path")

    # ---- R05.2 who may call the hook ---------------------------------------------------------------------
    callers = []
    for unit in P.units:
        for b in unit.bodies:
            for c in b.calls(with_promoted=True):
                if c.name.endswith("Device::handle_error") or (c.method == "handle_error" and c.trait and c.trait.endswith("Device")):
                    callers.append(b.npath)
    stray = [c for c in sorted(set(callers)) if not D.only_reached_from(P, c, ("scpi::tree::Node::run",))]
    R.check(callers and not stray, "R05.2", "hook-callers", "Device::handle_error is called only by Node::run (its closures / private helpers included)", "Device::handle_error called from %s (only Node::run may report errors, once)" % stray)

    # ---- R05.3/R05.5 run_tokens: abort at the first failed call ----------------------------------------------
    rt = D.run_tokens_table()
    n_fail = 0
    for key, ps in sorted(rt.items(), key=lambda kv: repr(kv[0])):
        for p in ps:
            ex = [e for e in p.calls if e.name.endswith("Node::exec")]
            # find the first call whose result was assumed Err
            trace = p.trace
            for i, e in enumerate(trace):
                if e.kind == "assume" and e.name == "variant" and e.args[1] == "Err" and "'ret'" in repr(e.args[0]):
                    n_fail += 1
                    later = [x for x in trace[i + 1:] if x.kind in ("call", "consume") and not x.name.endswith(("from_residual", "Into::into", "From::from"))]
                    src = repr(e.args[0])
                    okk = not later and p.outcome.startswith("Err(") and p.r.retval.name == "Err"
                    # returned error is that call's error
                    ret = fdai.snapshot(p.r.retval)
                    which = [w for w in ("Node::exec", "message_start", "message_end", "response_unit") if w in src]
                    same = which and which[0] in repr(ret)
                    if not (okk and same):
                        R.violation("R05.5", "run_tokens:%s:after-%s" % ("/".join(key), which[0] if which else "?"), "after a failed call the message must stop and return that error; continued with %s, returned %s" % ([x.name for x in later], ret))
                    break
    R.check(True, "R05.5", "run_tokens:abort", "%d failing paths: nothing runs after the failed call and its error is returned" % n_fail)
    R.floor("R05.5", "failing run_tokens paths", n_fail, 20)

    # lexer errors seen by run_tokens / exec are returned unchanged
    for key in [("ERR",), ("ProgramMnemonic", "ERR"), ("HeaderMnemonicSeparator", "ERR")]:
        ps = rt[key]
        relevant = [p for p in ps if not any(e.kind == "assume" and e.name == "variant" and e.args[1] == "Err" and "'ret'" in repr(e.args[0]) for e in p.trace)]
        ok = relevant and all(p.outcome == "Err(<lexer-error>)" for p in relevant if not p.outcome == "Err(?)")
        after = [p for p in relevant if p.outcome != "Err(<lexer-error>)"]
        R.check(ok and not after, "R05.3", "run_tokens:lexer-error@%s" % "/".join(key), "a lexical error is returned as the message's error", "lexical error not propagated: %s" % [p.describe() for p in after])
    ex_rows = D.exec_table()
    for kind in ("Leaf", "Branch"):
        ps = ex_rows[(kind, "ERR", None)]
        ok = ps and all(p.outcome == "Err(<lexer-error>)" and not p.has_call("Command::event") and not p.has_call("Command::query") and not p.has_call("Node::exec") for p in ps)
        R.check(ok, "R05.3", "exec:%s:lexer-error" % kind, "lexical error at the header is returned, no handler runs", "a lexical error seen by exec must abort the unit: %s" % [p.describe() for p in ps])
    ps = ex_rows[("Branch", "HeaderMnemonicSeparator", "ERR")]
    R.check(ps and all(p.outcome == "Err(<lexer-error>)" and not p.has_call("Node::exec") for p in ps), "R05.3", "exec:Branch:lexer-error-after-colon", "lexical error after `:` is returned", "lexical error after `:` dropped: %s" % [p.describe() for p in ps])

    # ---- R05.3 syntactic error discipline: no Result dropped in run/run_tokens/exec ----------------------------
    n_sites = 0
    for fn in ("scpi::tree::Node::run_tokens", "scpi::tree::Node::exec"):
        b = u.body(fn)
        S = sym.Sym(b.mir)
        for c in b.calls():
            dty = b.mir.local_ty(c.dest["l"]) if c.dest and not c.dest["proj"] else ""
            if not dty.startswith("core::result::Result<") or "error::Error" not in dty:
                continue
            n_sites += 1
            used = _result_used(b.mir, c)
            R.check(used, "R05.3", "%s:%s@%s" % (fn.split("::")[-1], c.name.split("::")[-1], _site(b, c)), "result propagated (`?`, tail value or returned)", "the Result of %s is dropped: a failure here would not abort the message" % c.name, where=c.line)
    R.floor("R05.3", "fallible calls in run_tokens/exec", n_sites, 12)

    # ---- R05.4 at most one handler per exec path, one exec per unit --------------------------------------------
    for key, ps in ex_rows.items():
        for p in ps:
            nh = sum(1 for n in p.call_names if n.endswith(("Command::event", "Command::query")))
            nx = sum(1 for n in p.call_names if n.endswith("Node::exec"))
            if nh + nx > 1:
                R.violation("R05.4", "exec:%s" % "/".join(str(k) for k in key), "a unit may run one handler or one recursion, found %d handler calls and %d recursions on one path: %s" % (nh, nx, p.describe()))
            if nh == 1 and not p.outcome.startswith("ret:"):
                R.violation("R05.4", "exec:%s:tail" % "/".join(str(k) for k in key), "the handler's result must be the unit's result (tail position): %s" % p.describe())
    R.ok("R05.4", "exec:at-most-one-handler", "every exec path has at most one handler call or one recursion, in tail position")
    # ... also when the handler leaves parameters of its unit unread: whatever the handler returned - its error in
    # particular - is the unit's result; the left-over check (-108) belongs after a *successful* unit (C06/R06.3)
    n_left = 0
    for desc, ps in D.leaf_with_leftover():
        for p in ps:
            nh = sum(1 for n in p.call_names if n.endswith(("Command::event", "Command::query")))
            if nh == 0:
                continue
            n_left += 1
            if nh != 1 or not p.outcome.startswith("ret:") or not p.outcome[4:] in ("event", "query"):
                R.violation("R05.4", "exec:leftover:%s" % desc, "with unread parameters left in the unit the handler's result is not returned as it is (a handler error would be replaced): %s" % p.describe())
    R.floor("R05.4", "leaf paths with unread parameters", n_left, 5)
    for key, ps in rt.items():
        if len(key) == 2:
            for p in ps:
                nx = sum(1 for n in p.call_names if n.endswith("Node::exec"))
                # one unit -> at most one exec before the post token is consumed
                if nx > 1 and key[1] != "ProgramMessageUnitSeparator":
                    R.violation("R05.4", "run_tokens:%s" % "/".join(key), "one unit executed %d times: %s" % (nx, p.describe()))
    R.ok("R05.4", "run_tokens:one-exec-per-unit", "each unit performs exactly one top-level exec")

    # ---- R05.10 a lexical error inside the parameter list stays in the stream -------------------------------------------------
    # Parameters hands a lexical error to the handler (as its Err) but must leave it unread: run_tokens meets it again
    # after the unit and aborts the message with it even when the handler chose to carry on (an unreadable optional
    # argument, say). A Parameters that consumes the error makes the failing unit succeed.
    n_e = 0
    for fn in ("next_optional_token", "next_token"):
        tab = D.params_table(fn)
        for (first, second), ps in sorted(tab.items(), key=lambda kv: repr(kv[0])):
            if first != "ERR":
                continue
            n_e += 1
            ok = bool(ps) and all(p.outcome == "Err(<lexer-error>)" and p.consumed == [] for p in ps)
            R.check(ok, "R05.10", "%s[ERR]" % fn, "the error is reported to the handler and nothing is consumed", "a lexical error in the parameter list is consumed by Parameters::%s (%s): the message could go on after it" % (fn, "; ".join("%s consumed %s" % (p.outcome, p.consumed) for p in ps)))
    R.floor("R05.10", "lexer-error rows of the Parameters tables", n_e, 2)
    # ---- R05.11 whole messages: the unit that fails ends the message, whatever the reason and wherever it stands --------------------
    from . import msgtable as MT
    MT.check(R, "R05.11", "abort", tier, "Node::run on whole messages against a concrete tree with scripted handlers: units run left to right once each; at the first failure (handler error, undefined header, missing / surplus parameter, lexical error) nothing later runs, the call returns that error and the error hook is given exactly it, once; never on success", 60)

    # ---- R05.6 response unit latch -------------------------------------------------------------------------------------
    ru_adt = "scpi::parser::response::ResponseUnit"
    eng = D.engine(inline=D.inline_inherent(("scpi::parser::response::ResponseUnit::",)))
    for meth, nargs in (("data", 1), ("header", 1)):
        b = u.body("scpi::parser::response::ResponseUnit::" + meth)
        for res_state, label in ((fdai.mk_err(SymV("first-error", "first-error")), "Err"), (fdai.mk_ok(fdai.UNIT), "Ok")):
            for flags in ((False, False), (True, False), (False, True), (True, True)):
                fmtcell = Cell(TOP, "fmt")
                # the four bookkeeping states are taken from the library's own header/data calls (sa/rules/emit.py: unit_states)
                from . import emit as E_
                fi_, ri_, si_ = E_.unit_layout(u)
                fields = [f["name"] for f in u.adts[ru_adt]["variants"][0]["fields"]]
                unit = E_.mk_unit(u, E_.unit_states(P)[flags], result=res_state, fmt=RefV(fmtcell, (), True))
                ucell = Cell(unit, "unit")
                if meth == "header" and flags[1]:
                    continue  # documented precondition: header before data (debug_assert)
                res = eng.run(b, [RefV(ucell, (), True), SymV("payload", "payload")])
                for r in res:
                    if r.outcome != "return":
                        R.violation("R05.6", "ResponseUnit::%s[%s,%s]:outcome" % (meth, label, flags), "unexpected outcome %s" % r.outcome)
                        continue
                    writes = [e.name for e in r.trace if e.kind == "call" and ("Formatter::" in e.name or "format_response_data" in e.name)]
                    cells = None
                    # locate the unit cell in the final state through the returned &mut Self
                    rv = r.retval
                    final = load(Loc(rv.cell, rv.path)) if isinstance(rv, RefV) else None
                    fres = final.fields.get(ri_) if isinstance(final, AggV) else None
                    if label == "Err":
                        keep = isinstance(fres, EnumV) and fres.name == "Err" and isinstance(fres.fields.get(0), SymV) and fres.fields[0].id == "first-error"
                        R.check(not writes and keep, "R05.6", "ResponseUnit::%s[after-error,%s]" % (meth, flags), "after a failed write nothing more is written and the first error is kept", "after a failed write the unit must write nothing and keep its first error; writes=%s result=%r" % (writes, fres))
                    else:
                        R.check(len(writes) >= 1, "R05.6", "ResponseUnit::%s[ok,%s]" % (meth, flags), "writes %s" % [w.split("::")[-1] for w in writes], "no write on the Ok path")
    fb = u.body("scpi::parser::response::ResponseUnit::finish")
    S = sym.Sym(fb.mir)
    e = sym.norm(S.local(0))
    R.check(e == ("field", ("arg", 1, "self"), fields[ri_]), "R05.6", "ResponseUnit::finish", "returns the latched result", "finish() must return self.result, returns %s" % sym.show(e))

    # ---- R05.7 forward-only stream ----------------------------------------------------------------------------------------
    allowed = ("core::iter::Peekable::peek", "<core::iter::Peekable<I> as core::iter::Iterator>::next", "core::iter::Peekable::next_if", "core::iter::Peekable::next_if_eq", "core::iter::Iterator::next")
    bad = []
    n = 0
    for b in u.bodies:
        if not (b.npath.startswith("scpi::tree::") or b.npath.startswith("scpi::parser::parameters::") or D.takes_token_stream(b.npath)):
            continue
        for c in b.calls():
            argt = c.term.get("argtys", [])
            if argt and "Peekable<parser::tokenizer::Tokenizer" in argt[0]:
                n += 1
                # handing the stream to another function of the library is fine when that function is itself examined here
                inside = (c.rname.startswith(("scpi::tree::", "scpi::parser::parameters::")) and not c.rname.startswith("scpi::tree::command::")) or D.takes_token_stream(c.rname)
                if c.rname not in allowed and c.name not in allowed and not inside and not c.name.endswith(("Parameters::with", "Node::exec", "Node::run_tokens", "Command::event", "Command::query")):
                    bad.append("%s in %s" % (c.name, b.npath))
    R.check(not bad, "R05.7", "stream-ops", "the shared token stream is only peeked / advanced (%d call sites)" % n, "token stream used by %s: it may only be peeked or advanced, never cloned, rewound or replaced" % bad)
    R.floor("R05.7", "token stream call sites", n, 6)

    # ---- R05.8 a failed write at the start of a unit is returned before any handler runs ----------------------------------
    # Formatter::response_unit is called by exec before the query handler; if the separator cannot be written the
    # unit must fail there. Every fallible write's result has to be examined (and its Err returned) or be the return
    # value itself - a result parked in a struct, folded away or overwritten lets the handler run on a failed buffer.
    from . import emit as E
    impls = [u.trait_method("parser::response::Formatter", "response_unit", w) for w in ("arrayvec::ArrayVec", "alloc::vec::Vec") if any(w in (x.impl_self or "") for x in u.bodies if "parser::response::Formatter" in (x.impl_trait or ""))]
    R.floor("R05.8", "Formatter::response_unit impls", len(impls), 2)
    n_fail = 0
    for b in impls:
        who = "ArrayVec" if "ArrayVec" in (b.impl_self or "") else "Vec" if "Vec" in (b.impl_self or "") else (b.impl_self or "?")
        try:
            res = eng.run(b, [RefV(Cell(TOP, "buf"), (), True)])
            why = E.check_write_discipline(res)
            n_fail += sum(1 for r in res if r.outcome == "return" and E.write_discipline(r)[3])
        except (fdai.TooManyPaths, RecursionError) as e:
            why = ["undecided (%s)" % type(e).__name__]
        R.check(not why, "R05.8", "%s::response_unit" % who, "the result of every write is examined and a failure is returned to exec (so the handler does not run)", "; ".join(why[:3]), where=b.span)
    R.count("response_unit_failing_paths", n_fail)

    # ---- R05.9 response-data writers return the failure of any write they make (emit.check_all_writers) ------------------
    E.check_all_writers(R, "R05.9", P)


def _site(b, c):
    # stable ordinal of this call among calls to the same callee in the body
    same = [x for x in b.calls() if x.name == c.name]
    idx = [x.bi for x in same].index(c.bi)
    return "#%d" % idx


def _result_used(mir, c):
    """The Result written by call c must flow into Try::branch, into _0, or be returned directly."""
    if c.dest is None:
        return False
    l = c.dest["l"]
    if l == 0:
        return True
    # scan uses of local l
    for bi in mir.live_blocks():
        blk = mir.blocks[bi]
        for st in blk["stmts"]:
            if st["k"] == "assign" and _mentions(st["rv"], l):
                return True
        t = blk["term"]
        if t["k"] == "call":
            for a in t["args"]:
                if a["k"] in ("copy", "move") and a["place"]["l"] == l:
                    return True
        if t["k"] == "switch" and t["discr"]["k"] in ("copy", "move") and t["discr"]["place"]["l"] == l:
            return True
    return False


def _mentions(rv, l):
    def op(o):
        return o.get("k") in ("copy", "move") and o["place"]["l"] == l
    k = rv["k"]
    if k in ("use", "cast", "unop", "repeat"):
        return op(rv["a"])
    if k == "binop":
        return op(rv["a"]) or op(rv["b"])
    if k in ("ref", "discr", "rawptr"):
        return rv["place"]["l"] == l
    if k == "aggr":
        return any(op(f) for f in rv["fields"])
    return False
