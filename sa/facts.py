"""Loader and accessors for scpi-facts JSON (the type-checked program as MIR)."""
import re
from . import extract

_GEN = re.compile(r"::<[^<>]*>")


_STD = re.compile(r"\bstd::(option|result|iter|ops|convert|clone|cmp|slice|mem|num|marker|default|fmt|str|array|ptr|cell|any|hash|borrow)::")


def strip_generics(p):
    """`a::B::<'a, D>::f::<X>` -> `a::B::f` (nested generics handled by iterating); std:: re-exports of core
    modules are spelled core:: so that no_std and std units agree."""
    p = _STD.sub(lambda m: "core::" + m.group(1) + "::", p)
    if "::<" not in p:
        return p
    out = []
    i, n = 0, len(p)
    while i < n:
        if p.startswith("::<", i):
            # skip the balanced generic argument list; `::<impl Trait<..> for T>` segments identify the impl and
            # are kept (only flat ones such as `::<impl [T]>` are dropped)
            depth = 0
            j = i + 2
            while j < n:
                c = p[j]
                if c == "<":
                    depth += 1
                elif c == ">" and p[j - 1] != "-":
                    depth -= 1
                    if depth == 0:
                        break
                j += 1
            seg = p[i:j + 1]
            if seg.startswith("::<impl ") and ("<" in seg[3:-1] or ">" in seg[3:-1]):
                out.append(seg)
            i = j + 1
            continue
        out.append(p[i])
        i += 1
    return "".join(out)


class Call:
    __slots__ = ("body", "bi", "term", "callee", "args", "dest", "target", "line", "mac", "name", "rname", "trait", "method", "self_ty", "where")

    def __init__(self, body, bi, term, where=None):
        self.body = body
        self.bi = bi
        self.term = term
        self.where = where  # None for the main body, promoted index otherwise
        c = term["callee"]
        self.callee = c
        self.args = term["args"]
        self.dest = term.get("dest")
        self.target = term.get("target")
        self.line = term.get("line", "?")
        self.mac = term.get("mac") or []
        if "indirect" in c:
            self.name = "<indirect>"
            self.rname = "<indirect>"
            self.trait = None
            self.method = None
            self.self_ty = None
        else:
            self.name = body.unit.qualify(strip_generics(c["path"]), c.get("krate"))
            r = c.get("resolved")
            self.rname = body.unit.qualify(strip_generics(r), c.get("resolved_krate")) if r else self.name
            self.trait = c.get("trait")
            self.method = c.get("method")
            self.self_ty = c.get("self_ty")

    def is_method(self, trait_suffix, method):
        return self.trait is not None and self.trait.endswith(trait_suffix) and self.method == method

    def gargs(self):
        return self.callee.get("gargs", [])

    def __repr__(self):
        return "Call(%s @bb%d %s)" % (self.name, self.bi, self.line)


class Mir:
    """One MIR body (main body or promoted)."""

    def __init__(self, owner, m, where=None):
        self.owner = owner
        self.m = m
        self.where = where
        self.blocks = m["blocks"]
        self.locals = m["locals"]
        self.arg_count = m["arg_count"]
        self._succ = None
        self._pred = None
        self._assigns = None

    @property
    def unit(self):
        return self.owner.unit

    @property
    def path(self):
        return self.owner.path

    # ---- CFG -------------------------------------------------------------------------------
    def succs(self, bi):
        if self._succ is None:
            self._succ = [self._compute_succ(b) for b in self.blocks]
        return self._succ[bi]

    @staticmethod
    def _compute_succ(b):
        t = b["term"]
        k = t["k"]
        if k == "goto":
            return [t["target"]]
        if k == "switch":
            out = []
            for _, bb in t["targets"]:
                if bb not in out:
                    out.append(bb)
            if t["otherwise"] not in out:
                out.append(t["otherwise"])
            return out
        if k in ("call", "assert", "drop"):
            return [t["target"]] if t.get("target") is not None else []
        return []

    def preds(self, bi):
        if self._pred is None:
            self._pred = [[] for _ in self.blocks]
            for i in range(len(self.blocks)):
                if self.blocks[i]["cleanup"]:
                    continue
                for s in self.succs(i):
                    self._pred[s].append(i)
        return self._pred[bi]

    def live_blocks(self):
        """Blocks reachable from bb0 along non-unwind edges."""
        seen = set()
        st = [0]
        while st:
            b = st.pop()
            if b in seen:
                continue
            seen.add(b)
            st.extend(self.succs(b))
        return seen

    def calls(self):
        for bi in sorted(self.live_blocks()):
            t = self.blocks[bi]["term"]
            if t["k"] == "call":
                yield Call(self, bi, t, self.where)

    def returns(self):
        return [bi for bi in self.live_blocks() if self.blocks[bi]["term"]["k"] == "return"]

    # ---- def-use -----------------------------------------------------------------------------
    def assigns(self):
        """local -> list of (bi, si or 'term', rvalue-or-call)"""
        if self._assigns is None:
            a = {}
            for bi in self.live_blocks():
                b = self.blocks[bi]
                for si, st in enumerate(b["stmts"]):
                    if st["k"] == "assign":
                        a.setdefault(st["place"]["l"], []).append((bi, si, st))
                    elif st["k"] == "setdiscr":
                        a.setdefault(st["place"]["l"], []).append((bi, si, st))
                t = b["term"]
                if t["k"] == "call" and t.get("dest") is not None:
                    a.setdefault(t["dest"]["l"], []).append((bi, "term", t))
            self._assigns = a
        return self._assigns

    def local_ty(self, l):
        return self.locals[l]["ty"]

    def local_name(self, l):
        return self.locals[l].get("name") if 0 <= l < len(self.locals) else None


class Body:
    def __init__(self, unit, j):
        self.unit = unit
        self.j = j
        self.raw_path = j["path"]
        self.path = unit.qualify(j["path"], unit.crate)
        self.npath = strip_generics(self.path)
        self.dpath = j.get("dpath")
        self.kind = j["kind"]
        self.bkind = j["bkind"]
        self.span = j["span"]
        self.mac = j.get("mac") or []
        self.impl_self = j.get("impl_self")
        self.impl_trait = j.get("impl_trait")
        self.impl_trait_def = j.get("impl_trait_def")
        self.in_trait = j.get("in_trait")
        self.parent_fn = unit.qualify(j["parent_fn"], unit.crate) if j.get("parent_fn") else None
        self.name = j.get("name")
        self.mir = Mir(self, j["mir"])
        self.promoted = [Mir(self, p, i) for i, p in enumerate(j["promoted"])]

    def all_mirs(self):
        yield self.mir
        for p in self.promoted:
            yield p

    def calls(self, with_promoted=False):
        for c in self.mir.calls():
            yield c
        if with_promoted:
            for p in self.promoted:
                for c in p.calls():
                    yield c

    def file(self):
        return self.span.rsplit(":", 1)[0]

    def __repr__(self):
        return "Body(%s)" % self.path


class Unit:
    """One compilation unit (crate + configuration)."""

    def __init__(self, j):
        self.j = j
        self.crate = j["crate"]
        self.features = j["features"]
        self.crates = j["crates"]
        self.is_test = j["is_test"]
        self.debug_assertions = j["debug_assertions"]
        self.adts = {self.qualify(a["path"], self.crate): a for a in j["adts"]}
        self.consts = {self.qualify(c["path"], self.crate): c for c in j["consts"]}
        self.impls = j["impls"]
        self.unsafe_blocks = j["unsafe_blocks"]
        self.bodies = [Body(self, b) for b in j["bodies"]]
        self.by_path = {}
        for b in self.bodies:
            self.by_path.setdefault(b.path, b)

    def qualify(self, p, krate):
        """Prefix crate-local paths with the crate name (def_path_str omits it for the local crate)."""
        if p is None:
            return None
        if p.startswith("<"):
            return p
        if krate == self.crate and not p.startswith(self.crate + "::"):
            return self.crate + "::" + p
        return p

    def find(self, pred):
        return [b for b in self.bodies if pred(b)]

    def body(self, suffix, required=True):
        """Unique body whose generic-stripped path ends with `suffix`."""
        hits = [b for b in self.bodies if b.npath == suffix or b.npath.endswith("::" + suffix) or b.path == suffix]
        if len(hits) == 1:
            return hits[0]
        if not hits:
            if required:
                raise AnchorLost("no body %r in crate %s" % (suffix, self.crate))
            return None
        raise AnchorLost("ambiguous body %r in crate %s: %s" % (suffix, self.crate, [h.path for h in hits][:5]))

    def impl_methods(self, trait_contains, method, self_contains=None):
        out = []
        for b in self.bodies:
            if b.kind != "AssocFn" or b.name != method:
                continue
            if not b.impl_trait or trait_contains not in b.impl_trait:
                continue
            if self_contains is not None and self_contains not in (b.impl_self or ""):
                continue
            out.append(b)
        return out

    def provided_methods(self, trait_contains):
        """bodies of the provided (default) methods of the workspace trait whose path contains `trait_contains`"""
        return [b for b in self.bodies if b.kind == "AssocFn" and b.in_trait and trait_contains in b.in_trait]

    def trait_methods_for(self, trait_contains, self_contains):
        """{method name: body} as the type whose name contains `self_contains` gets them: its own impl's methods plus
        the trait's provided methods it does not override (so that moving a body between impl and trait changes nothing)"""
        out = {}
        for b in self.provided_methods(trait_contains):
            out[b.name] = b
        for b in self.bodies:
            if b.kind == "AssocFn" and b.impl_trait and trait_contains in b.impl_trait and self_contains in (b.impl_self or ""):
                out[b.name] = b
        return out

    def trait_method(self, trait_contains, method, self_contains):
        b = self.trait_methods_for(trait_contains, self_contains).get(method)
        if b is None:
            raise AnchorLost("method %s of %s for %s (neither in the impl nor provided by the trait)" % (method, trait_contains, self_contains))
        return b

    def closures_of(self, body):
        pre = body.path + "::{closure#"
        return [b for b in self.bodies if b.path.startswith(pre)]


class AnchorLost(Exception):
    pass


class Program:
    """All units of one configuration."""

    def __init__(self, config):
        self.config = config
        self.units = [Unit(j) for j in extract.load(config)]
        self.by_crate = {}
        for u in self.units:
            self.by_crate.setdefault(u.crate, u)

    def unit(self, crate):
        if crate not in self.by_crate:
            raise AnchorLost("no unit for crate %s in config %s" % (crate, self.config))
        return self.by_crate[crate]

    def all_bodies(self):
        for u in self.units:
            for b in u.bodies:
                yield b


class Merged:
    """Several configurations viewed as one program (e.g. witness crates + the libraries they use)."""

    def __init__(self, *progs):
        self.config = "+".join(p.config for p in progs)
        self.units = [u for p in progs for u in p.units]
        self.by_crate = {}
        for u in self.units:
            self.by_crate.setdefault(u.crate, u)

    def unit(self, crate):
        if crate not in self.by_crate:
            raise AnchorLost("no unit for crate %s in %s" % (crate, self.config))
        return self.by_crate[crate]

    def all_bodies(self):
        for u in self.units:
            for b in u.bodies:
                yield b


_PROGS = {}


def program(config):
    if config not in _PROGS:
        _PROGS[config] = Program(config)
    return _PROGS[config]


# ---- operand helpers -----------------------------------------------------------------------------

def op_local(o):
    """local index if operand is a bare local copy/move, else None"""
    if o["k"] in ("copy", "move") and not o["place"]["proj"]:
        return o["place"]["l"]
    return None


def op_const(o):
    return o["c"] if o["k"] == "const" else None


def const_int(c):
    if c is None:
        return None
    if "int" in c:
        return int(c["int"])
    if "bool" in c:
        return 1 if c["bool"] else 0
    return None


def const_bytes(c):
    if c is not None and "bytes" in c:
        return bytes(c["bytes"])
    return None
