"""Runs the scpi-facts extractor over /repo's current working tree (cached by content hash)."""
import fcntl, hashlib, json, os, shutil, subprocess, sys, time

VERIF = os.path.dirname(os.path.dirname(os.path.abspath(__file__)))
REPO = os.environ.get("SCPI_REPO", "/repo")
CACHE = os.environ.get("SCPI_VERIF_CACHE", os.path.join(VERIF, ".cache"))
DRIVER = os.path.join(VERIF, "driver", "target", "debug", "scpi-facts")

UNITS = "unit-electric-potential,unit-electric-current,unit-electrical-conductance,unit-electrical-resistance,unit-electric-charge,unit-capacitance,unit-inductance,unit-energy,unit-power,unit-angle,unit-ratio,unit-thermodynamic-temperature,unit-time,unit-frequency"

# name -> (list of cargo invocations (cwd relative to repo or absolute, args), crates wanted, expected fact files (crate, kind))
CONFIGS = {
    "dflt": {
        "cmds": [("", ["check", "--workspace", "--lib", "--features", "scpi/arrayvec"])],
        "crates": "scpi,scpi_contrib",
        "expect": ["scpi-lib", "scpi_contrib-lib"],
    },
    "noalloc": {
        "cmds": [
            ("", ["check", "-p", "scpi", "--lib", "--no-default-features", "--features", "arrayvec," + UNITS]),
        ],
        "crates": "scpi",
        "expect": ["scpi-lib"],
    },
    "noalloc_contrib": {
        "cmds": [("", ["check", "-p", "scpi-contrib", "--lib"])],
        "crates": "scpi,scpi_contrib",
        "expect": ["scpi-lib", "scpi_contrib-lib"],
    },
    "release": {
        "cmds": [("", ["check", "--workspace", "--lib", "--release", "--features", "scpi/arrayvec"])],
        "crates": "scpi,scpi_contrib",
        "expect": ["scpi-lib", "scpi_contrib-lib"],
    },
    "examples": {
        "cmds": [("", ["check", "--workspace", "--examples"])],
        "crates": "simple,minimal_scpi",
        "expect": ["simple-lib", "minimal_scpi-lib"],
    },
    "witness": {
        "cmds": [("@WITNESS@", ["check", "--workspace", "--lib"])],
        "crates": "witness_enums,witness_wiring,witness_echo",
        "expect": ["witness_enums-lib", "witness_wiring-lib", "witness_echo-lib"],
        "extra_hash": os.path.join(VERIF, "witness"),
    },
}


def _hash_tree(h, root, skip=("target", ".git")):
    for dp, dn, fn in os.walk(root):
        dn[:] = sorted(d for d in dn if d not in skip)
        for f in sorted(fn):
            p = os.path.join(dp, f)
            if os.path.islink(p) or not os.path.isfile(p):
                continue
            h.update(os.path.relpath(p, root).encode())
            h.update(b"\0")
            with open(p, "rb") as fh:
                h.update(fh.read())
            h.update(b"\0")


_KEY = {}


def tree_key(config):
    if config in _KEY:
        return _KEY[config]
    h = hashlib.sha256()
    _hash_tree(h, REPO)
    with open(DRIVER, "rb") as fh:
        h.update(fh.read())
    extra = CONFIGS[config].get("extra_hash")
    if extra:
        _hash_tree(h, extra)
    h.update(config.encode())
    _KEY[config] = h.hexdigest()[:24]
    return _KEY[config]


def sysroot():
    return subprocess.check_output(["rustc", "+nightly", "--print", "sysroot"], text=True).strip()


def facts_dir(config):
    return os.path.join(CACHE, "facts", tree_key(config), config)


def ensure(config, log=sys.stderr):
    """Make sure facts for `config` exist for the current working tree; returns the directory."""
    if not os.path.exists(DRIVER):
        raise SystemExit("driver not built: run MANIFEST.setup_cmd (cargo build in /verif/driver)")
    out = facts_dir(config)
    done = os.path.join(out, ".complete")
    if os.path.exists(done):
        return out
    os.makedirs(CACHE, exist_ok=True)
    lock = open(os.path.join(CACHE, "lock-" + config), "w")
    fcntl.flock(lock, fcntl.LOCK_EX)
    try:
        if os.path.exists(done):
            return out
        t0 = time.time()
        if os.path.exists(out):
            shutil.rmtree(out)
        os.makedirs(out)
        cfg = CONFIGS[config]
        target = os.path.join(CACHE, "target-" + config)
        env = dict(os.environ)
        sr = sysroot()
        env.update(
            {
                "LD_LIBRARY_PATH": sr + "/lib" + (":" + env["LD_LIBRARY_PATH"] if env.get("LD_LIBRARY_PATH") else ""),
                "RUSTFLAGS": "-Zmir-opt-level=0 -Awarnings",
                "RUSTC_WORKSPACE_WRAPPER": DRIVER,
                "SCPI_FACTS_DIR": out,
                "SCPI_FACTS_CRATES": cfg["crates"],
                "CARGO_NET_OFFLINE": "true",
                "CARGO_TARGET_DIR": target,
                "CARGO_INCREMENTAL": "0",
            }
        )
        env.pop("RUSTC_WRAPPER", None)
        # cargo skips the wrapper for fresh units: drop the members' fingerprints
        for prof in ("debug", "release"):
            fp = os.path.join(target, prof, ".fingerprint")
            if os.path.isdir(fp):
                for d in os.listdir(fp):
                    if d.split("-")[0] in ("scpi", "scpi_contrib", "scpi_derive", "witness_enums", "witness_wiring", "witness_controls") or d.startswith(("scpi-contrib", "scpi-", "witness")):
                        shutil.rmtree(os.path.join(fp, d), ignore_errors=True)
        for cwd, args in cfg["cmds"]:
            if cwd == "@WITNESS@":
                cwd = _materialise_witness()
            wd = cwd if os.path.isabs(cwd) else os.path.join(REPO, cwd)
            cmd = ["cargo", "+nightly"] + args[:1] + ["--offline"] + args[1:]
            r = subprocess.run(cmd, cwd=wd, env=env, stdout=subprocess.PIPE, stderr=subprocess.STDOUT, text=True)
            if r.returncode != 0:
                log.write(r.stdout[-6000:])
                raise SystemExit("fact extraction failed for config %s (cargo exit %d): the tree does not build" % (config, r.returncode))
        have = os.listdir(out)
        for e in cfg["expect"]:
            if not any(f.startswith(e + "-") and f.endswith(".json") for f in have):
                raise SystemExit("fact extraction for config %s produced no fact file for %s (fail closed)" % (config, e))
        with open(done, "w") as fh:
            fh.write("%0.1f\n" % (time.time() - t0))
        log.write("[extract] %s: %d fact files in %.1fs (key %s)\n" % (config, len(have), time.time() - t0, tree_key(config)))
        _gc()
        return out
    finally:
        fcntl.flock(lock, fcntl.LOCK_UN)
        lock.close()


def _materialise_witness():
    """Copy /verif/witness to the cache with the path dependencies pointing at the analysed repository."""
    src = os.path.join(VERIF, "witness")
    dst = os.path.join(CACHE, "witness-src")
    if os.path.exists(dst):
        shutil.rmtree(dst)
    shutil.copytree(src, dst, ignore=shutil.ignore_patterns("target"))
    for dp, dn, fn in os.walk(dst):
        for f in fn:
            if f.endswith(".in"):
                with open(os.path.join(dp, f)) as fh:
                    txt = fh.read().replace("@REPO@", REPO)
                with open(os.path.join(dp, f[:-3]), "w") as fh:
                    fh.write(txt)
                os.remove(os.path.join(dp, f))
    lock = os.path.join(REPO, "Cargo.lock")
    if os.path.exists(lock):
        shutil.copy(lock, os.path.join(dst, "Cargo.lock"))
    return dst


def _gc(keep=16):
    """Keep only the most recent fact directories."""
    root = os.path.join(CACHE, "facts")
    try:
        ds = sorted((os.path.getmtime(os.path.join(root, d)), d) for d in os.listdir(root))
    except OSError:
        return
    for _, d in ds[:-keep]:
        shutil.rmtree(os.path.join(root, d), ignore_errors=True)


def load(config):
    d = ensure(config)
    res = []
    for f in sorted(os.listdir(d)):
        if f.endswith(".json"):
            with open(os.path.join(d, f)) as fh:
                res.append(json.load(fh))
    return res


if __name__ == "__main__":
    for c in sys.argv[1:] or ["dflt"]:
        print(ensure(c))
