"""Evidence, violations, known findings, fail-closed floors."""
import hashlib, json, os, re, sys, time

VERIF = os.path.dirname(os.path.dirname(os.path.abspath(__file__)))
EVDIR = os.environ.get("SCPI_EVIDENCE_DIR") or os.path.join(VERIF, "evidence")


def load_known():
    known = {}
    p = os.path.join(VERIF, "known_findings.txt")
    if os.path.exists(p):
        for line in open(p):
            line = line.strip()
            m = re.match(r"known:\s+property=(\S+)\s+key=(\S+)\s*(.*)", line)
            if m:
                known.setdefault(m.group(1), {})[m.group(2)] = m.group(3)
    return known


class Run:
    def __init__(self, prop, tier, level, technique):
        self.prop = prop
        self.tier = tier
        self.level = level
        self.technique = technique
        self.t0 = time.time()
        self.obligations = []  # (rule, key, ok, detail)
        self.violations = []  # dict
        self.samples = []
        self.trusted = []
        self.assumptions = []
        self.analysed = {}  # counters
        self.notes = []
        self.configs = []
        self.seed = int(os.environ.get("VERIF_SEED", "0") or 0)

    # -- recording ---------------------------------------------------------------------------
    def count(self, what, n=1):
        self.analysed[what] = self.analysed.get(what, 0) + n

    def trust(self, *facts):
        for f in facts:
            if f not in self.trusted:
                self.trusted.append(f)

    def assume(self, *facts):
        for f in facts:
            if f not in self.assumptions:
                self.assumptions.append(f)

    def sample(self, s):
        if len(self.samples) < 40:
            self.samples.append(s)

    def ok(self, rule, key, detail="", sample=None):
        self.obligations.append((rule, key, True, detail))
        if sample is not None:
            self.sample(sample)
        elif len(self.samples) < 12:
            self.sample({"rule": rule, "instance": key, "result": "holds", "detail": detail})

    def violation(self, rule, key, detail, where=None, path=None, config=None):
        self.obligations.append((rule, key, False, detail))
        if any(v["key"] == "%s|%s" % (rule, key) for v in self.violations):
            return
        self.violations.append({"property": self.prop, "rule": rule, "key": "%s|%s" % (rule, key), "detail": detail, "where": where, "path": path, "config": config})

    def check(self, cond, rule, key, detail_ok="", detail_bad="", where=None, **kw):
        if cond:
            self.ok(rule, key, detail_ok)
        else:
            self.violation(rule, key, detail_bad or detail_ok, where=where, **kw)
        return cond

    def anchor_lost(self, rule, what):
        self.violation(rule, "ANCHOR-LOST:" + what, "anchor not found: %s (rule cannot be evaluated; failing closed)" % what)

    def floor(self, rule, what, count, minimum):
        if count < minimum:
            self.violation(rule, "FLOOR:" + what, "rule matched %d instance(s) of %s, fewer than the %d confirmed by hand (vacuous pass refused)" % (count, what, minimum))
        else:
            self.ok(rule, "floor:" + what, "%d >= %d" % (count, minimum))

    # -- finishing ---------------------------------------------------------------------------
    def finish(self):
        known = load_known().get(self.prop, {})
        new = []
        for v in self.violations:
            k = v["key"].replace(" ", "_")
            if k in known:
                print("KNOWN-FINDING: property=%s %s %s" % (self.prop, k, known[k]))
            else:
                new.append(v)
        rdir = os.path.join(EVDIR, "replay")
        for v in new:
            os.makedirs(rdir, exist_ok=True)
            h = hashlib.sha1(v["key"].encode()).hexdigest()[:12]
            rp = os.path.join(rdir, "%s-%s.json" % (self.prop, h))
            with open(rp, "w") as fh:
                json.dump(v, fh, indent=1)
            sys.stdout.write("[%s] %s: %s\n    %s\n" % (self.prop, v["rule"], v["key"], v["detail"]))
            if v.get("where"):
                sys.stdout.write("    at %s\n" % v["where"])
            if v.get("path"):
                sys.stdout.write("    path %s\n" % v["path"])
            print("VIOLATION property=%s replay=%s" % (self.prop, rp))
        n_ob = len(self.obligations)
        n_ok = sum(1 for o in self.obligations if o[2])
        distinct = len({(o[0], o[1]) for o in self.obligations})
        rules = sorted({o[0] for o in self.obligations})
        ev = {
            "property_id": self.prop,
            "tier": self.tier,
            "seed": self.seed,
            "level": self.level,
            "coverage": {
                "obligations": n_ob,
                "discharged": n_ok,
                "evaluations": max(n_ob, 1),
                "distinct_nontrivial": distinct,
                "rule": "one obligation per rule instance (rule id + structural key: function path and site description, never a line number); every instance is decided from the MIR of /repo's current working tree; distinct = distinct (rule, key) pairs",
                "checker_cmd": "./check %s --tier %s" % (self.prop, self.tier),
                "trusted_base": ["rustc nightly MIR construction and type checking", "scpi-facts extractor (/verif/driver)", "python rule engine (/verif/sa)"] + self.trusted,
                "explanation": "%s. Rules evaluated: %s. Analysed: %s. Configurations: %s." % (self.technique, ", ".join(rules), json.dumps(self.analysed, sort_keys=True), ", ".join(self.configs)),
                "samples": self.samples[:40] or [{"note": "no obligations recorded"}],
                "exhaustive": False,
                "analysed": self.analysed,
                "rules": rules,
                "configs": self.configs,
                "notes": self.notes,
            },
            "assumptions": self.assumptions,
            "wall_s": round(time.time() - self.t0, 3),
            "violations": len(new),
        }
        if getattr(self, "exhaustive", False):
            ev["coverage"]["exhaustive"] = True
        os.makedirs(EVDIR, exist_ok=True)
        with open(os.path.join(EVDIR, "%s.json" % self.prop), "w") as fh:
            json.dump(ev, fh, indent=1, default=str)
        print("[%s] tier=%s rules=%d obligations=%d discharged=%d violations=%d known=%d wall=%.1fs" % (self.prop, self.tier, len(rules), n_ob, n_ok, len(new), len(self.violations) - len(new), time.time() - self.t0))
        return 1 if new else 0
