#!/usr/bin/env python3
"""Readable dump of bodies from a scpi-facts JSON file (development aid)."""
import json, sys


def fmt_place(p):
    s = "_%d" % p["l"]
    for e in p["proj"]:
        k = e["k"]
        if k == "deref":
            s = "(*%s)" % s
        elif k == "field":
            s = "%s.%s" % (s, e["name"])
        elif k == "downcast":
            s = "(%s as %s)" % (s, e["v"])
        elif k == "index":
            s = "%s[_%d]" % (s, e["l"])
        else:
            s = "%s.<%s>" % (s, k)
    return s


def fmt_const(c):
    if "promoted" in c:
        return "promoted[%d]" % c["promoted"]
    for k in ("int", "bool", "fbits"):
        if k in c:
            return "const %s_%s" % (c[k], c["ty"])
    if "bytes" in c:
        try:
            return "const b%r" % bytes(c["bytes"]).decode("latin1")
        except Exception:
            return "const bytes"
    if "fn" in c:
        return "fn %s" % c["fn"]
    if "static" in c:
        return "static %s" % c["static"]
    if "uneval" in c:
        return "uneval(%s)" % c.get("def", c["uneval"])
    return "const<%s>" % c.get("ty")


def fmt_op(o):
    if o["k"] in ("copy", "move"):
        return "%s %s" % (o["k"], fmt_place(o["place"]))
    if o["k"] == "const":
        return fmt_const(o["c"])
    return o.get("dbg", "?")


def fmt_rv(rv):
    k = rv["k"]
    if k == "use":
        return fmt_op(rv["a"])
    if k == "ref":
        return "&%s%s" % ("mut " if rv["mut"] else "", fmt_place(rv["place"]))
    if k == "rawptr":
        return "&raw %s" % fmt_place(rv["place"])
    if k == "cast":
        return "%s as %s (%s)" % (fmt_op(rv["a"]), rv["ty"], rv["kind"])
    if k == "binop":
        return "%s(%s, %s)" % (rv["op"], fmt_op(rv["a"]), fmt_op(rv["b"]))
    if k == "unop":
        return "%s(%s)" % (rv["op"], fmt_op(rv["a"]))
    if k == "discr":
        return "discriminant(%s)" % fmt_place(rv["place"])
    if k == "aggr":
        if rv["agg"] == "adt":
            return "%s::%s{%s}" % (rv["adt"], rv["variant"], ", ".join(fmt_op(f) for f in rv["fields"]))
        if rv["agg"] == "closure":
            return "closure %s{%s}" % (rv["def"], ", ".join(fmt_op(f) for f in rv["fields"]))
        return "%s(%s)" % (rv["agg"], ", ".join(fmt_op(f) for f in rv["fields"]))
    if k == "repeat":
        return "[%s; %s]" % (fmt_op(rv["a"]), rv["count"])
    return rv.get("dbg", k)


def fmt_callee(c):
    if "indirect" in c:
        return "(*%s)" % fmt_op(c["indirect"])
    s = c["path"]
    if c.get("gargs"):
        s += "::<%s>" % ", ".join(c["gargs"])
    if c.get("resolved") and c["resolved"] != c["path"]:
        s += " => " + c["resolved"]
    return s


def dump_mir(m, out, indent="  "):
    for i, l in enumerate(m["locals"]):
        out.write("%slet _%d: %s%s\n" % (indent, i, l["ty"], ("  // " + l["name"]) if "name" in l else ""))
    for bi, b in enumerate(m["blocks"]):
        out.write("%sbb%d%s:\n" % (indent, bi, " (cleanup)" if b["cleanup"] else ""))
        for st in b["stmts"]:
            if st["k"] == "assign":
                out.write("%s  %s = %s\n" % (indent, fmt_place(st["place"]), fmt_rv(st["rv"])))
            else:
                out.write("%s  %s\n" % (indent, st["k"]))
        t = b["term"]
        k = t["k"]
        mac = (" @" + "/".join(t["mac"])) if t.get("mac") else ""
        if k == "goto":
            out.write("%s  goto bb%d\n" % (indent, t["target"]))
        elif k == "switch":
            out.write("%s  switch %s [%s, otherwise bb%d]\n" % (indent, fmt_op(t["discr"]), ", ".join("%s:bb%d" % (v, b2) for v, b2 in t["targets"]), t["otherwise"]))
        elif k == "call":
            out.write("%s  %s = %s(%s) -> %s%s   [%s]\n" % (indent, fmt_place(t["dest"]), fmt_callee(t["callee"]), ", ".join(fmt_op(a) for a in t["args"]), ("bb%d" % t["target"]) if t["target"] is not None else "!", mac, t["line"].split("/")[-1]))
        elif k == "assert":
            out.write("%s  assert(%s == %s, %s) -> bb%d%s\n" % (indent, fmt_op(t["cond"]), t["expected"], t["msg"], t["target"], mac))
        elif k == "drop":
            out.write("%s  drop(%s) -> bb%d\n" % (indent, fmt_place(t["place"]), t["target"]))
        else:
            out.write("%s  %s\n" % (indent, k))


def main():
    f = sys.argv[1]
    pats = sys.argv[2:]
    d = json.load(open(f))
    for b in d["bodies"]:
        if pats and not any(p in b["path"] for p in pats):
            continue
        print("=== %s  [%s] %s %s" % (b["path"], b["kind"], b["span"], b.get("impl_trait", "")))
        if not pats:
            continue
        dump_mir(b["mir"], sys.stdout)
        for i, p in enumerate(b["promoted"]):
            print("  -- promoted[%d]" % i)
            dump_mir(p, sys.stdout, "    ")


if __name__ == "__main__":
    main()
