"""Finite-domain abstract interpreter (FDAI) for MIR bodies.

Path-sensitive abstract interpretation over a small finite domain: enum variants, booleans / small
integers, byte-string constants, references to abstract memory cells, aggregates, closures, and
named opaque symbols.  A branch on an unknown value forks the abstract state (trace partitioning)
and refines the scrutinee on each edge (the variant of the matched place, the truth value of a
symbol).  Calls are handled by (1) a model table for a dozen `core` helpers, (2) recursive
analysis of in-workspace callees selected by the rule, (3) otherwise recorded as an *event* with
the abstract arguments and answered by a fresh symbol.  Loops are cut by a per-path visit limit.
The result for one initial abstract state is the set of abstract paths: events, assumptions, and
the abstract return value - one row of a decision table.  No concrete value is computed from
program input and nothing is handed to a solver.
"""
import copy
from .facts import strip_generics


class Infeasible(Exception):
    pass


class TooManyPaths(Exception):
    pass


# ---- abstract values ---------------------------------------------------------------------------
class Val:
    pass


class TopV(Val):
    def __repr__(self):
        return "T"

    def __deepcopy__(self, memo):
        return self


TOP = TopV()


class K(Val):
    __slots__ = ("v",)

    def __init__(self, v):
        self.v = v

    def __repr__(self):
        return "K(%r)" % (self.v,)


class ListV(Val):
    """a slice of non-byte elements: a fixed list of cells (element identity is the cell)"""
    __slots__ = ("cells",)

    def __init__(self, cells):
        self.cells = list(cells)

    def __repr__(self):
        return "[%s]" % ", ".join(c.tag for c in self.cells)


class BytesV(Val):
    """a byte string; `off` (optional) is its absolute offset in the analysis' ambient input bytes, so that a
    sub-slice of the remaining input can be turned back into an input cursor"""
    __slots__ = ("b", "off")

    def __init__(self, b, off=None):
        self.b = b
        self.off = off

    def __repr__(self):
        return "b%r" % self.b.decode("latin1")


class SymV(Val):
    """Opaque named value; `facts` on the path may bind it to a K."""
    __slots__ = ("id", "desc")

    def __init__(self, id, desc):
        self.id = id
        self.desc = desc

    def __repr__(self):
        return "Sym#%s(%s)" % (self.id, self.desc if isinstance(self.desc, str) else self.desc[0])


class DiscrV(Val):
    """discriminant of the enum stored at a location (kept symbolic until switched on)"""
    __slots__ = ("loc", "adt")

    def __init__(self, loc, adt):
        self.loc = loc
        self.adt = adt

    def __repr__(self):
        return "Discr(%s)" % self.adt


class DiscrEqV(Val):
    """`discriminant(x) == d` (or `!=`) for an enum whose variant is not known yet: kept until it is branched on, where the
    enum at the location is refined to variant d on the one edge and variant d is excluded on the other"""
    __slots__ = ("discr", "value", "negate")

    def __init__(self, discr, value, negate):
        self.discr = discr
        self.value = value
        self.negate = negate

    def __repr__(self):
        return "DiscrEq(%s %s %s)" % (self.discr.adt, "!=" if self.negate else "==", self.value)


class EnumV(Val):
    __slots__ = ("adt", "name", "discr", "fields", "excluded")

    def __init__(self, adt, name, discr, fields=None, excluded=None):
        self.adt = adt
        self.name = name
        self.discr = discr
        self.fields = fields if fields is not None else {}
        self.excluded = excluded or frozenset()

    def __repr__(self):
        if self.name is None:
            return "Enum(%s !%s)" % (short(self.adt), sorted(self.excluded))
        fs = ",".join("%r" % self.fields[i] for i in sorted(self.fields))
        return "%s::%s(%s)" % (short(self.adt), self.name, fs)


class AggV(Val):
    __slots__ = ("kind", "fields", "origin")

    def __init__(self, kind, fields=None):
        self.kind = kind
        self.fields = fields if fields is not None else {}
        self.origin = None

    def __repr__(self):
        return "%s{%s}" % (short(self.kind), ",".join("%s:%r" % (i, self.fields[i]) for i in sorted(self.fields)))


class Cell:
    __slots__ = ("v", "tag")

    def __init__(self, v=TOP, tag=None):
        self.v = v
        self.tag = tag


class RefV(Val):
    __slots__ = ("cell", "path", "mut")

    def __init__(self, cell, path=(), mut=False):
        self.cell = cell
        self.path = tuple(path)
        self.mut = mut

    def __repr__(self):
        return "&%s%s" % (self.cell.tag or "cell", "".join(".%s" % p for p in self.path))


class FnV(Val):
    __slots__ = ("path", "gargs", "raw")

    def __init__(self, path, gargs=(), raw=None):
        self.path = path
        self.gargs = tuple(gargs)
        self.raw = raw          # the item's path as the compiler prints it (`core::num::<impl u8>::checked_add`): names the impl

    def __repr__(self):
        return "fn(%s)" % self.path


class ClosureV(Val):
    __slots__ = ("defpath", "captures")

    def __init__(self, defpath, captures):
        self.defpath = defpath
        self.captures = captures

    def __repr__(self):
        return "closure(%s)" % self.defpath


def short(p):
    return (p or "?").split("<")[0].split("::")[-1] if p else "?"


CORE_ENUMS = {
    "core::option::Option": {0: "None", 1: "Some"},
    "core::result::Result": {0: "Ok", 1: "Err"},
    "core::ops::ControlFlow": {0: "Continue", 1: "Break"},
    "core::ops::control_flow::ControlFlow": {0: "Continue", 1: "Break"},
}


import struct as _struct
import math as _math


def is_float(v):
    return isinstance(v, AggV) and v.kind == "float" and isinstance(v.fields.get(0), K) and isinstance(v.fields.get(1), K)


def float_of(v):
    """python float of an abstract float constant (bit pattern + width)"""
    bits, w = v.fields[0].v, int(v.fields[1].v)
    if w == 32:
        return _struct.unpack("<f", _struct.pack("<I", bits & 0xFFFFFFFF))[0]
    return _struct.unpack("<d", _struct.pack("<Q", bits & 0xFFFFFFFFFFFFFFFF))[0]


def mk_float(x, width):
    """abstract float constant for python float x at the given width (rounded to nearest for 32 bits)"""
    width = int(width)
    if width == 32:
        try:
            b = _struct.unpack("<I", _struct.pack("<f", x))[0]
        except OverflowError:
            b = 0x7F800000 if x > 0 else 0xFF800000
        return AggV("float", {0: K(b), 1: K(32)})
    return AggV("float", {0: K(_struct.unpack("<Q", _struct.pack("<d", x))[0]), 1: K(64)})


def mk_option(v=None):
    if v is None:
        return EnumV("core::option::Option", "None", 0)
    return EnumV("core::option::Option", "Some", 1, {0: v})


def mk_ok(v):
    return EnumV("core::result::Result", "Ok", 0, {0: v})


def mk_err(v):
    return EnumV("core::result::Result", "Err", 1, {0: v})


UNIT = AggV("()")


class Loc:
    __slots__ = ("cell", "path")

    def __init__(self, cell, path=()):
        self.cell = cell
        self.path = tuple(path)

    def sub(self, i):
        return Loc(self.cell, self.path + (i,))


def load(loc):
    v = loc.cell.v
    for i in loc.path:
        if isinstance(v, (AggV, EnumV)):
            v = v.fields.get(i, TOP)
        elif isinstance(v, BytesV) and isinstance(i, int) and 0 <= i < len(v.b):
            v = K(v.b[i])
        elif isinstance(v, ListV) and isinstance(i, int) and 0 <= i < len(v.cells):
            v = v.cells[i].v
        else:
            return TOP
    return v


def store(loc, val):
    if not loc.path:
        loc.cell.v = val
        return
    v = loc.cell.v
    if isinstance(v, ListV) and isinstance(loc.path[0], int) and 0 <= loc.path[0] < len(v.cells):
        # an element of a list is its own cell
        store(Loc(v.cells[loc.path[0]], tuple(loc.path[1:])), val)
        return
    if not isinstance(v, (AggV, EnumV)):
        v = AggV("?")
        loc.cell.v = v
    for n_, i in enumerate(loc.path[:-1]):
        nx = v.fields.get(i, TOP)
        if isinstance(nx, ListV) and isinstance(loc.path[n_ + 1], int) and 0 <= loc.path[n_ + 1] < len(nx.cells):
            store(Loc(nx.cells[loc.path[n_ + 1]], tuple(loc.path[n_ + 2:])), val)
            return
        if not isinstance(nx, (AggV, EnumV)):
            nx = AggV("?")
            v.fields[i] = nx
        v = nx
    v.fields[loc.path[-1]] = val


class Frame:
    def __init__(self, mir, env, dest, ret_bb, body):
        self.mir = mir
        self.env = env  # local -> Cell
        self.bi = 0
        self.dest = dest  # Loc in caller
        self.ret_bb = ret_bb
        self.body = body
        self.visits = {}
        self.gargs = ()  # generic arguments of the call that created the frame (as written at the call site)

    def __deepcopy__(self, memo):
        f = Frame(self.mir, copy.deepcopy(self.env, memo), copy.deepcopy(self.dest, memo), self.ret_bb, self.body)
        f.bi = self.bi
        f.visits = dict(self.visits)
        f.gargs = self.gargs
        return f


class State:
    def __init__(self):
        self.frames = []
        self.trace = []  # events
        self.facts = {}  # sym id -> K value
        self.symctr = 0
        self.outcome = None
        self.retval = None
        self.extra = {}

    def fresh(self, desc):
        self.symctr += 1
        return SymV(self.symctr, desc)


class Event:
    __slots__ = ("kind", "name", "rname", "args", "site", "line", "depth", "fn", "extra")

    def __init__(self, kind, name, rname, args, site, line, depth, fn, extra=None):
        self.kind = kind
        self.name = name
        self.rname = rname
        self.args = args
        self.site = site
        self.line = line
        self.depth = depth
        self.fn = fn
        self.extra = extra

    def __repr__(self):
        return "%s:%s(%s)" % (self.kind, self.name, ", ".join(repr(a) for a in self.args))

    def __deepcopy__(self, memo):
        return self  # immutable record (args are snapshots)


def snapshot(v, depth=0):
    """Immutable description of an abstract value for event records."""
    if depth > 4:
        return "…"
    if isinstance(v, K):
        return ("K", v.v)
    if isinstance(v, BytesV):
        return ("bytes", v.b)
    if isinstance(v, ListV):
        return ("list", tuple(c.tag for c in v.cells))
    if isinstance(v, EnumV):
        if v.name is None:
            return ("enum?", v.adt, tuple(sorted(v.excluded)))
        return ("enum", short(v.adt), v.name, tuple(snapshot(v.fields[i], depth + 1) for i in sorted(v.fields)))
    if isinstance(v, AggV):
        return ("agg", short(v.kind), tuple((i, snapshot(v.fields[i], depth + 1)) for i in sorted(v.fields, key=str)))
    if isinstance(v, RefV):
        return ("ref", v.cell.tag, v.path, snapshot(load(Loc(v.cell, v.path)), depth + 1))
    if isinstance(v, SymV):
        return ("sym", v.id, v.desc)
    if isinstance(v, FnV):
        return ("fn", v.path)
    if isinstance(v, ClosureV):
        return ("closure", v.defpath)
    if isinstance(v, DiscrV):
        return ("discr", v.adt)
    if isinstance(v, DiscrEqV):
        return ("discr-eq", v.discr.adt, v.value, v.negate)
    return ("top",)


import re as _re
_GENERIC_PARAM = _re.compile(r"^[A-Z][A-Z0-9_]*$")
_INT_RANGE = {"u8": (0, 255), "u16": (0, 65535), "u32": (0, 2**32 - 1), "u64": (0, 2**64 - 1), "usize": (0, 2**64 - 1), "u128": (0, 2**128 - 1),
              "i8": (-128, 127), "i16": (-32768, 32767), "i32": (-2**31, 2**31 - 1), "i64": (-2**63, 2**63 - 1), "isize": (-2**63, 2**63 - 1), "i128": (-2**127, 2**127 - 1)}


class Engine:
    def __init__(self, program, unit, inline=None, models=None, loop_limit=2, max_paths=4000, max_depth=8, enum_tables=None):
        self.program = program
        self.unit = unit
        self.inline = inline or (lambda name, rname: False)
        self.models = dict(DEFAULT_MODELS)
        if models:
            self.models.update(models)
        self.loop_limit = loop_limit
        self.redirect = {}
        self.max_paths = max_paths
        self.inline_fn_values = True  # a named fn passed as a callback is analysed in place like a closure
        self.max_depth = max_depth
        self.step_budget = None
        self._steps_used = 0
        self._forks_used = 0
        self.enum_tables = {}
        for u in program.units:
            for t in u.j.get("enum_tables", []):
                key = u.qualify(t["path"], t.get("krate"))
                self.enum_tables.setdefault(strip_generics(key), {int(v["discr"]): v["name"] for v in t["variants"]})
        # (every enum the crates declare, whether or not some analysed body happens to switch on it)
        for u in program.units:
            for k_, a_ in (getattr(u, "adts", None) or {}).items():
                if a_.get("kind") == "enum" and a_.get("variants") and all(v_.get("discr") is not None for v_ in a_["variants"]):
                    try:
                        self.enum_tables.setdefault(strip_generics(k_), {int(v_["discr"]): v_["name"] for v_ in a_["variants"]})
                    except (TypeError, ValueError):
                        pass
        self.enum_tables.update(CORE_ENUMS)
        self._bodies = {}
        for u in program.units:
            for b in u.bodies:
                self._bodies.setdefault(b.npath, b)
                self._bodies.setdefault(b.path, b)
                if b.dpath:
                    self._bodies.setdefault("dpath:" + b.dpath, b)

    # ---- helpers ---------------------------------------------------------------------------
    def variant_name(self, adt, discr):
        t = self.enum_tables.get(strip_generics(adt or ""))
        if t is None:
            return None
        return t.get(discr)

    def variant_discr(self, adt, name):
        t = self.enum_tables.get(strip_generics(adt or ""))
        if t is None:
            return None
        for d, n in t.items():
            if n == name:
                return d
        return None

    def find_body(self, name):
        return self._bodies.get(name)

    # ---- place / operand evaluation ------------------------------------------------------------
    def place_loc(self, st, fr, p, for_write=False):
        cell = fr.env.get(p["l"])
        if cell is None:
            cell = Cell(TOP, "_%d" % p["l"])
            fr.env[p["l"]] = cell
        loc = Loc(cell)
        for pr in p["proj"]:
            k = pr["k"]
            if k == "deref":
                v = self.resolve(st, load(loc))
                if isinstance(v, RefV):
                    loc = Loc(v.cell, v.path)
                elif isinstance(v, SymV):
                    # unknown pointer: allocate an abstract pointee and bind the symbol to it
                    nv = RefV(Cell(st.fresh(("pointee", v.desc)), "mem(%s)" % (v.id,)), (), True)
                    st.facts[v.id] = nv
                    loc = Loc(nv.cell, ())
                elif isinstance(v, TopV):
                    nv = RefV(Cell(TOP, "mem?"), (), True)
                    store(loc, nv)
                    loc = Loc(nv.cell, ())
                else:
                    return None
            elif k == "field":
                cur = load(loc)
                rcur = self.resolve(st, cur)
                if isinstance(rcur, SymV) and not for_write:
                    # unknown aggregate: materialise it so that its fields become distinct named symbols
                    agg = AggV("?")
                    agg.origin = rcur.desc
                    st.facts[rcur.id] = agg
                    store(loc, agg)
                    rcur = agg
                if isinstance(rcur, AggV) and getattr(rcur, "origin", None) is not None and pr["i"] not in rcur.fields:
                    rcur.fields[pr["i"]] = st.fresh(("field", pr["i"], rcur.origin))
                if rcur is not cur and isinstance(rcur, (AggV, EnumV)) and isinstance(cur, SymV):
                    store(loc, rcur)
                loc = loc.sub(pr["i"])
            elif k == "downcast":
                v = self.resolve(st, load(loc))
                if isinstance(v, EnumV):
                    if v.name is not None and v.name != pr["v"]:
                        raise Infeasible()
                    if v.name is None and not for_write:
                        # refine lazily: a downcast is only executed on the matching edge
                        d = None
                        adt = v.adt
                        d = self.variant_discr(adt, pr["v"])
                        if d is not None and d in v.excluded:
                            raise Infeasible()
                        store(loc, EnumV(adt, pr["v"], d, {}))
                elif isinstance(v, TopV) and not for_write:
                    store(loc, EnumV(None, pr["v"], None, {}))
            elif k == "index":
                ic = fr.env.get(pr["l"])
                iv_ = self.resolve(st, ic.v) if ic is not None else None
                if isinstance(iv_, K) and isinstance(iv_.v, int) and not isinstance(iv_.v, bool):
                    base = self.resolve(st, load(loc))
                    if isinstance(base, RefV):
                        loc = Loc(base.cell, base.path)
                    loc = Loc(loc.cell, loc.path + (iv_.v,))
                else:
                    return None
            elif k == "constindex":
                base = self.resolve(st, load(loc))
                if isinstance(base, RefV):
                    loc = Loc(base.cell, base.path)
                    base = self.resolve(st, load(loc))
                off_ = int(pr["offset"])
                if pr.get("from_end"):
                    n_ = len(base.b) if isinstance(base, BytesV) else len(base.cells) if isinstance(base, ListV) else len(base.fields) if isinstance(base, AggV) and base.kind == "array" else None
                    if n_ is None:
                        return None
                    off_ = n_ - off_
                loc = Loc(loc.cell, loc.path + (off_,))
            elif k in ("constindex", "subslice"):
                return None
            else:
                return None
        return loc

    def resolve(self, st, v):
        if isinstance(v, SymV) and v.id in st.facts:
            return st.facts[v.id]
        return v

    def read_place(self, st, fr, p):
        loc = self.place_loc(st, fr, p)
        if loc is None:
            return TOP
        return self.resolve(st, load(loc))

    def const_val(self, c, fr):
        if "promoted" in c:
            # evaluate promoted body lazily: straight-line, returns a reference to its value
            pm = fr.body.promoted[c["promoted"]] if fr.body is not None and c["promoted"] < len(fr.body.promoted) else None
            if pm is not None:
                v = self.eval_promoted(pm)
                if v is not None:
                    return v
            return TOP
        if "int" in c:
            return K(int(c["int"]))
        if "bool" in c:
            return K(bool(c["bool"]))
        if "bytes" in c:
            cell = Cell(BytesV(bytes(c["bytes"])), "const")
            return RefV(cell)
        if "array_bytes" in c:
            return BytesV(bytes(c["array_bytes"]))
        if "fn" in c:
            return FnV(self.unit_qual(fr, strip_generics(c["fn"])), c.get("gargs", ()), raw=c["fn"])
        if "fbits" in c:
            return AggV("float", {0: K(int(c["fbits"])), 1: K(c["fwidth"])})
        if "zst" in c:
            return UNIT
        if "static" in c and isinstance(c["static"], str):
            # an immutable static: a reference to the value of its initialiser
            sp = strip_generics(c["static"])
            b = self.find_body(self.unit_qual(fr, sp)) or self.find_body(sp)
            if b is not None and b.bkind == "const":
                saved = fr.body
                v = self.eval_static(b)
                if v is not None:
                    return RefV(Cell(copy.deepcopy(v), "static"))
        if "def" in c:
            # a named constant of aggregate type: evaluate its (straight-line) initialiser. (An associated constant of a
            # generic impl is evaluated the same way; an initialiser that depends on the type parameters does not evaluate.)
            b = self.find_body(self.unit_qual(fr, strip_generics(c["def"]))) or self.find_body(strip_generics(c["def"]))
            if b is not None and b.bkind == "const":
                v = self.eval_promoted(b.mir) if not c.get("defargs") else None
                if v is TOP:
                    v = None                       # the initialiser refers to its own promoteds: evaluate it as an item
                if v is None:
                    try:
                        v = self.eval_static(b)
                    except Exception:
                        v = None
                    if v is not None and "Top" in repr(snapshot(v)):
                        v = None
                if v is not None:
                    return copy.deepcopy(v)
        return TOP

    def eval_static(self, body):
        """initialiser of a static / const item: straight-line code that may reference its own promoteds"""
        st = State()
        fr = Frame(body.mir, {}, None, None, body)
        st.frames.append(fr)
        try:
            for _ in range(200):
                b = body.mir.blocks[fr.bi]
                for s_ in b["stmts"]:
                    if s_["k"] == "assign":
                        self.assign(st, fr, s_)
                t = b["term"]
                if t["k"] == "goto":
                    fr.bi = t["target"]
                elif t["k"] == "return":
                    c = fr.env.get(0)
                    return c.v if c else None
                elif t["k"] == "call" and self._const_call(st, fr, t):
                    fr.bi = t["target"]
                else:
                    return None
        except Exception:
            return None
        return None

    def eval_promoted(self, pm):
        """Promoted bodies are straight-line constant constructions returning `&value`."""
        st = State()
        fr = Frame(pm, {}, None, None, None)
        st.frames.append(fr)
        try:
            for _ in range(200):
                b = pm.blocks[fr.bi]
                for s in b["stmts"]:
                    if s["k"] == "assign":
                        self.assign(st, fr, s)
                t = b["term"]
                if t["k"] == "goto":
                    fr.bi = t["target"]
                elif t["k"] == "return":
                    c = fr.env.get(0)
                    return c.v if c else None
                elif t["k"] == "call" and self._const_call(st, fr, t):
                    fr.bi = t["target"]
                else:
                    return None
        except Exception:
            return None
        return None

    def _const_call(self, st, fr, t):
        """a call inside a constant initialiser: only modelled pure constructors are evaluated"""
        c = t["callee"]
        if "indirect" in c or t.get("target") is None or t.get("dest") is None:
            return False
        name = strip_generics(c.get("path", ""))
        m = self.models.get(strip_generics(c.get("resolved") or "")) or self.models.get(name)
        args = [self.operand(st, fr, a) for a in t["args"]]
        if m is None:
            # a `const fn` of the workspace (typically a constructor `X::new()`): evaluated as a pure function
            u_ = fr.mir.unit if fr.mir is not None else self.unit
            rn = c.get("resolved") or c.get("path") or ""
            body = self.find_body(u_.qualify(strip_generics(rn), c.get("resolved_krate") or c.get("krate"))) or self.find_body(strip_generics(rn))
            if (body is None or (getattr(self, "opaque_generic_ctors", False) and c.get("gargs"))) and not args and strip_generics(rn).endswith("::new"):
                # a unit-like constructor of another crate (a command handler type): an opaque value naming its type
                store(self.place_loc(st, fr, t["dest"], for_write=True), AggV("new:%s<%s>" % (strip_generics(c.get("impl_self") or rn), ",".join(str(g) for g in (c.get("gargs") or ()))), {}))
                return True
            if body is None or body.kind not in ("Fn", "AssocFn") or getattr(self, "_const_depth", 0) > 6:
                return False
            self._const_depth = getattr(self, "_const_depth", 0) + 1
            try:
                res = self.run(body, args)
            except Exception:
                res = []
            finally:
                self._const_depth -= 1
            if len(res) != 1 or res[0].outcome != "return":
                return False
            store(self.place_loc(st, fr, t["dest"], for_write=True), res[0].retval)
            return True
        r = m(self, st, fr, t, name, name, args)
        if r is NotImplemented or isinstance(r, list):
            return False
        store(self.place_loc(st, fr, t["dest"], for_write=True), r)
        return True

    def operand(self, st, fr, o):
        k = o["k"]
        if k in ("copy", "move"):
            return self.read_place(st, fr, o["place"])
        if k == "const":
            c = o["c"]
            if "uneval" in c and "def" not in c:
                v = self.const_param(st, c["uneval"])
                if v is not None:
                    return v
            return self.const_val(c, fr)
        return TOP

    def const_param(self, st, text):
        """a const generic parameter (`Ty(usize, N/#2)` or a bare name) -> its value in the instantiation under analysis"""
        m = _re.match(r"^(?:Ty\([^,]+, )?([A-Z][A-Z0-9_]*)(?:/#\d+)?\)?$", str(text))
        if not m:
            return None
        g = self.concrete_gargs(st, {"gargs": [m.group(1)]})[0]
        if _re.fullmatch(r"-?\d+", g):
            return K(int(g))
        if g in ("true", "false"):
            return K(g == "true")
        m2 = _re.fullmatch(r"(?:core::)?([iu](?:8|16|32|64|128|size))::(MAX|MIN)", g)
        if m2 and m2.group(1) in _INT_RANGE:
            return K(_INT_RANGE[m2.group(1)][1 if m2.group(2) == "MAX" else 0])       # `{ usize::MAX }` as a const argument
        return None

    def binop(self, st, op, a, b, ty):
        a = self.resolve(st, a)
        b = self.resolve(st, b)
        if is_float(a) and is_float(b):
            x, y, w = float_of(a), float_of(b), max(int(a.fields[1].v), int(b.fields[1].v))
            if op in ("Eq", "Ne", "Lt", "Le", "Gt", "Ge"):
                return K({"Eq": x == y, "Ne": x != y, "Lt": x < y, "Le": x <= y, "Gt": x > y, "Ge": x >= y}[op])
            try:
                if op == "Add":
                    return mk_float(x + y, w)
                if op == "Sub":
                    return mk_float(x - y, w)
                if op == "Mul":
                    return mk_float(x * y, w)
                if op == "Div":
                    if y == 0:
                        return mk_float(_math.nan if (x == 0 or x != x) else _math.copysign(_math.inf, x) * _math.copysign(1.0, y), w)
                    return mk_float(x / y, w)
                if op == "Rem" and y != 0 and not _math.isinf(x):
                    return mk_float(_math.fmod(x, y), w)
            except (OverflowError, ValueError):
                pass
        if isinstance(a, K) and isinstance(b, K):
            x, y = a.v, b.v
            try:
                if op == "Eq":
                    return K(x == y)
                if op == "Ne":
                    return K(x != y)
                if op == "Lt":
                    return K(x < y)
                if op == "Le":
                    return K(x <= y)
                if op == "Gt":
                    return K(x > y)
                if op == "Ge":
                    return K(x >= y)
                base = op.replace("WithOverflow", "").replace("Unchecked", "")
                r = None
                if base == "Add":
                    r = x + y
                elif base == "Sub":
                    r = x - y
                elif base == "Mul":
                    r = x * y
                elif base == "BitAnd":
                    r = (x & y) if not isinstance(x, bool) else (x and y)
                elif base == "BitOr":
                    r = (x | y) if not isinstance(x, bool) else (x or y)
                elif base == "BitXor":
                    r = x ^ y
                elif base == "Shl":
                    r = x << y
                elif base == "Shr":
                    r = x >> y
                elif base == "Div" and y != 0 and not isinstance(x, bool):
                    r = abs(x) // abs(y) * (1 if (x >= 0) == (y >= 0) else -1)
                elif base == "Rem" and y != 0 and not isinstance(x, bool):
                    r = abs(x) % abs(y) * (1 if x >= 0 else -1)
                if r is not None:
                    if "WithOverflow" in op:
                        rng = _INT_RANGE.get(ty or "")
                        ov = rng is not None and not (rng[0] <= r <= rng[1])
                        if ov:
                            r = (r - rng[0]) % (rng[1] - rng[0] + 1) + rng[0]
                        return AggV("tuple", {0: K(r), 1: K(bool(ov))})
                    return K(r)
            except Exception:
                pass
        if op in ("Eq", "Ne"):
            for p_, q_ in ((a, b), (b, a)):
                if isinstance(p_, DiscrV) and isinstance(q_, K) and isinstance(q_.v, int) and not isinstance(q_.v, bool):
                    cur = self.resolve(st, load(p_.loc))
                    if isinstance(cur, EnumV) and cur.name is None and int(q_.v) in cur.excluded:
                        return K(op == "Ne")
                    return DiscrEqV(p_, int(q_.v), op == "Ne")
        # short-circuit facts for booleans
        if op == "BitAnd":
            for p, q in ((a, b), (b, a)):
                if isinstance(p, K) and p.v is False:
                    return K(False)
                if isinstance(p, K) and p.v is True:
                    return q
        if op == "BitOr":
            for p, q in ((a, b), (b, a)):
                if isinstance(p, K) and p.v is True:
                    return K(True)
                if isinstance(p, K) and p.v is False:
                    return q
        r = st.fresh(("binop", op, snapshot(a), snapshot(b)))
        if "WithOverflow" in op:
            return AggV("tuple", {0: r, 1: st.fresh(("overflow", op))})
        return r

    def rvalue(self, st, fr, rv):
        k = rv["k"]
        if k == "use":
            return self.operand(st, fr, rv["a"])
        if k in ("ref", "rawptr"):
            pl = rv["place"]
            if pl["proj"] and pl["proj"][-1]["k"] == "subslice":
                # `&s[from..]`, `&s[..len-to]` of a slice pattern: a view of the same bytes / the same element cells
                sub = pl["proj"][-1]
                loc0 = self.place_loc(st, fr, {"l": pl["l"], "proj": pl["proj"][:-1]})
                base = self.resolve(st, load(loc0)) if loc0 is not None else None
                hops = 0
                while isinstance(base, RefV) and hops < 4:
                    base = self.resolve(st, load(Loc(base.cell, base.path)))
                    hops += 1
                n_ = len(base.b) if isinstance(base, BytesV) else len(base.cells) if isinstance(base, ListV) else len(base.fields) if isinstance(base, AggV) and base.kind == "array" else None
                if n_ is None:
                    return TOP
                lo = int(sub["from"])
                hi = n_ - int(sub["to"]) if sub.get("from_end") else int(sub["to"])
                if not (0 <= lo <= hi <= n_):
                    return TOP
                if isinstance(base, BytesV):
                    return RefV(Cell(BytesV(base.b[lo:hi], (base.off + lo) if base.off is not None else None), "bytes"), (), rv.get("mut", True))
                if isinstance(base, ListV):
                    return RefV(Cell(ListV(base.cells[lo:hi]), "sublist"), (), rv.get("mut", True))
                return RefV(Cell(ListV([Cell(base.fields[i], "elem%d" % i) for i in sorted(base.fields)][lo:hi]), "sublist"), (), rv.get("mut", True))
            if pl["proj"] and pl["proj"][-1]["k"] == "deref":
                # reborrow `&*p`: when p is not a tracked reference the result is p itself
                base = self.read_place(st, fr, {"l": pl["l"], "proj": pl["proj"][:-1]})
                if not isinstance(base, RefV):
                    return base
            loc = self.place_loc(st, fr, pl)
            if loc is None:
                return TOP
            return RefV(loc.cell, loc.path, rv.get("mut", True))
        if k == "cast":
            v = self.operand(st, fr, rv["a"])
            if rv["kind"].startswith("PointerCoercion") or rv["kind"] in ("PtrToPtr", "Transmute", "Subtype"):
                return v
            if rv["kind"] == "IntToInt":
                v = self.resolve(st, v)
                if isinstance(v, K):
                    x = int(v.v)
                    rng = _INT_RANGE.get(rv.get("ty") or "")
                    if rng is not None and not (rng[0] <= x <= rng[1]):
                        x = (x - rng[0]) % (rng[1] - rng[0] + 1) + rng[0]
                    return K(x)
                if isinstance(v, DiscrV):
                    return v
            if rv["kind"] == "IntToFloat":
                vv = self.resolve(st, v)
                if isinstance(vv, K) and isinstance(vv.v, int) and rv.get("ty") in ("f32", "f64"):
                    return mk_float(float(int(vv.v)), 32 if rv["ty"] == "f32" else 64)
            if rv["kind"] == "FloatToInt":
                vv = self.resolve(st, v)
                rng = _INT_RANGE.get(rv.get("ty") or "")
                if is_float(vv) and rng is not None:
                    x = float_of(vv)
                    if x != x:
                        return K(0)                    # NaN
                    if x >= rng[1]:
                        return K(rng[1])               # saturating
                    if x <= rng[0]:
                        return K(rng[0])
                    return K(int(x))                   # truncation towards zero
            if rv["kind"] == "FloatToFloat":
                vv = self.resolve(st, v)
                if is_float(vv) and rv.get("ty") in ("f32", "f64"):
                    return mk_float(float_of(vv), 32 if rv["ty"] == "f32" else 64)
            return st.fresh(("cast", rv["kind"], rv["ty"], snapshot(v)))
        if k == "binop":
            return self.binop(st, rv["op"], self.operand(st, fr, rv["a"]), self.operand(st, fr, rv["b"]), rv.get("ty"))
        if k == "unop":
            a = self.resolve(st, self.operand(st, fr, rv["a"]))
            if rv["op"] == "Not" and isinstance(a, K):
                if isinstance(a.v, bool):
                    return K(not a.v)
                rng = _INT_RANGE.get(rv.get("ty") or "")
                return K(rng[1] - a.v) if rng is not None and rng[0] == 0 else K(~a.v)
            if rv["op"] == "Neg" and isinstance(a, K):
                return K(-a.v)
            if rv["op"] == "Neg" and is_float(a):
                return mk_float(-float_of(a), a.fields[1].v)
            if rv["op"] == "Not" and isinstance(a, SymV):
                return st.fresh(("unop", "Not", snapshot(a)))
            if rv["op"] == "PtrMetadata":
                if isinstance(a, RefV):
                    t = load(Loc(a.cell, a.path))
                    if isinstance(t, BytesV):
                        return K(len(t.b))
                    if isinstance(t, ListV):
                        return K(len(t.cells))
                    if isinstance(t, AggV) and t.kind == "array" and all(isinstance(i_, int) for i_ in t.fields):
                        return K(len(t.fields))
                return st.fresh(("len", snapshot(a)))
            return st.fresh(("unop", rv["op"], snapshot(a)))
        if k == "discr":
            if rv.get("adt"):
                rv = dict(rv)
                rv["adt"] = self.unit_qual(fr, rv["adt"])
            loc = self.place_loc(st, fr, rv["place"])
            if loc is None:
                return st.fresh(("discr", rv.get("adt")))
            v = self.resolve(st, load(loc))
            if isinstance(v, EnumV) and v.name is not None:
                d = v.discr
                if d is None:
                    d = self.variant_discr(rv.get("adt") or v.adt, v.name)
                if d is not None:
                    return K(d)
            if isinstance(v, EnumV) and v.adt is None:
                v.adt = rv.get("adt")
            return DiscrV(loc, rv.get("adt") or (v.adt if isinstance(v, EnumV) else None))
        if k == "aggr":
            fs = {i: self.operand(st, fr, f) for i, f in enumerate(rv["fields"])}
            if rv["agg"] == "adt":
                adt = self.unit_qual(fr, rv["adt"])
                if (rv.get("variant") is not None) and self.is_enum(adt):
                    return EnumV(adt, rv["variant"], self.variant_discr(adt, rv["variant"]), fs)
                return AggV(adt, fs)
            if rv["agg"] == "closure":
                return ClosureV(self.unit_qual(fr, rv["def"]), fs)
            if rv["agg"] == "array" and rv.get("ty") == "u8" and fs and all(isinstance(self.resolve(st, v), K) and isinstance(self.resolve(st, v).v, int) for v in fs.values()):
                return BytesV(bytes(self.resolve(st, fs[i]).v & 0xFF for i in sorted(fs)))
            return AggV(rv["agg"], fs)
        if k == "repeat":
            cnt = rv.get("count")
            n_ = int(cnt) if str(cnt).isdigit() else None
            if n_ is None:
                kv = self.const_param(st, cnt)
                n_ = kv.v if kv is not None and isinstance(kv.v, int) else None
            if n_ is not None and n_ <= 1024 and "a" in rv:
                el = self.operand(st, fr, rv["a"])
                import copy as _copy
                return AggV("array", {i: (_copy.deepcopy(el) if isinstance(el, AggV) else el) for i in range(n_)})
            return AggV("array", {})
        return TOP

    def unit_qual(self, fr, p):
        u = fr.mir.unit if fr.mir is not None else self.unit
        if not p or p.startswith("<"):
            return p
        if "::" in p and p.split("::")[0] in ("core", "alloc", "std", "lexical_core", "lexical_util", "lexical_parse_float", "lexical_parse_integer", "arrayvec", "uom", "num_traits", u.crate):
            return p
        if p.split("::")[0] in ("scpi", "scpi_contrib") and u.crate != p.split("::")[0] and p.split("::")[0] in [c for c in u.crates]:
            return p
        return u.qualify(p, u.crate)

    def is_enum(self, adt):
        return strip_generics(adt) in self.enum_tables

    def assign(self, st, fr, s):
        v = self.rvalue(st, fr, s["rv"])
        loc = self.place_loc(st, fr, s["place"], for_write=True)
        if loc is not None:
            store(loc, v)

    # ---- running -------------------------------------------------------------------------------
    def run(self, body, args, seed_state=None):
        """Analyse `body` with abstract argument values `args` (list). Returns list of finished States."""
        st = seed_state or State()
        self.push_frame(st, body, args, None, None)
        work = [st]
        done = []
        steps = 0
        while work:
            s = work.pop()
            steps += 1
            if steps > 400000:
                raise TooManyPaths("step limit")
            try:
                nxt = self.step(s)
            except Infeasible:
                continue
            for n in nxt:
                if n.outcome is not None:
                    done.append(n)
                    if len(done) > self.max_paths:
                        raise TooManyPaths("more than %d paths" % self.max_paths)
                else:
                    work.append(n)
        return done

    def push_frame(self, st, body, args, dest, ret_bb):
        mir = body.mir
        env = {}
        for i, a in enumerate(args):
            env[i + 1] = Cell(a, "%s:_%d" % (short(body.npath), i + 1))
        fr = Frame(mir, env, dest, ret_bb, body)
        st.frames.append(fr)
        return fr

    def fork(self, st):
        if self.step_budget is not None:
            # a budgeted run is a fold on concrete inputs: it hardly ever forks; each fork copies the whole state
            self._forks_used += 1
            if self._forks_used > 300:
                raise TooManyPaths("fork budget exceeded")
        return copy.deepcopy(st)

    def step(self, st):
        # optional budget over a whole top-level run, nested runs of models included (a fold on concrete inputs that
        # stops being a fold - an unmodelled call made the input symbolic - must end as "undecided", not run for minutes)
        if self.step_budget is not None:
            self._steps_used += 1
            if self._steps_used > self.step_budget:
                raise TooManyPaths("step budget of %d exceeded" % self.step_budget)
        fr = st.frames[-1]
        bi = fr.bi
        fr.visits[bi] = fr.visits.get(bi, 0) + 1
        if fr.visits[bi] > self.loop_limit:
            st.outcome = "cut"
            return [st]
        b = fr.mir.blocks[bi]
        for s in b["stmts"]:
            if s["k"] == "assign":
                self.assign(st, fr, s)
            elif s["k"] == "setdiscr":
                pass
        t = b["term"]
        k = t["k"]
        if k == "goto":
            fr.bi = t["target"]
            return [st]
        if k == "drop":
            fr.bi = t["target"]
            return [st]
        if k == "return":
            rv = fr.env.get(0)
            val = rv.v if rv else UNIT
            st.frames.pop()
            if not st.frames:
                st.outcome = "return"
                st.retval = val
                return [st]
            caller = st.frames[-1]
            if fr.dest is not None:
                store(fr.dest, val)
            caller.bi = fr.ret_bb
            if fr.ret_bb is None:
                st.outcome = "diverge"
            return [st]
        if k == "unreachable":
            st.outcome = "unreachable"
            return [st]
        if k == "assert":
            c = self.resolve(st, self.operand(st, fr, t["cond"]))
            if isinstance(c, K):
                if bool(c.v) == t["expected"]:
                    fr.bi = t["target"]
                    return [st]
                st.outcome = "panic"
                st.trace.append(Event("panic", "assert:" + t["msg"], None, (), bi, t["line"], len(st.frames), fr.body.npath if fr.body else "?"))
                return [st]
            # unknown: record possible panic as an event and continue on the success edge
            st.trace.append(Event("maypanic", "assert:" + t["msg"], None, (), bi, t["line"], len(st.frames), fr.body.npath if fr.body else "?"))
            fr.bi = t["target"]
            return [st]
        if k == "switch":
            return self.switch(st, fr, t)
        if k == "call":
            return self.call(st, fr, t)
        st.outcome = "unsupported:" + k
        return [st]

    def switch(self, st, fr, t):
        d = self.resolve(st, self.operand(st, fr, t["discr"]))
        targets = [(int(v), bb) for v, bb in t["targets"]]
        dty = t.get("dty", "")
        if dty in ("i8", "i16", "i32", "i64", "isize", "i128"):
            bits = {"i8": 8, "i16": 16, "i32": 32, "i64": 64, "isize": 64, "i128": 128}[dty]
            targets = [((v - (1 << bits)) if v >= (1 << (bits - 1)) else v, bb) for v, bb in targets]
        if isinstance(d, K):
            v = int(d.v)
            for tv, bb in targets:
                if tv == v:
                    fr.bi = bb
                    return [st]
            fr.bi = t["otherwise"]
            return [st]
        out = []
        if isinstance(d, DiscrEqV) and isinstance(self.resolve(st, load(d.discr.loc)), EnumV) and self.resolve(st, load(d.discr.loc)).name is not None:
            cur = self.resolve(st, load(d.discr.loc))
            dv = cur.discr if cur.discr is not None else self.variant_discr(cur.adt, cur.name)
            truth = (dv == d.value) != d.negate
            for tv, bb in targets:
                if tv == int(truth):
                    fr.bi = bb
                    return [st]
            fr.bi = t["otherwise"]
            return [st]
        if isinstance(d, DiscrEqV):
            # two edges: the enum IS variant `value` / it is not
            cur = self.resolve(st, load(d.discr.loc))
            adt = d.discr.adt or (cur.adt if isinstance(cur, EnumV) else None)
            table = self.enum_tables.get(strip_generics(adt or ""))
            excluded = cur.excluded if isinstance(cur, EnumV) else frozenset()
            idx = len(st.frames) - 1

            def edge_for(truth):
                for tv, bb in targets:
                    if tv == int(truth):
                        return bb
                return t["otherwise"]
            feasible_eq = d.value not in excluded and (table is None or d.value in table)
            remaining = [x for x in table if x not in excluded and x != d.value] if table is not None else None
            feasible_ne = remaining is None or bool(remaining)
            if feasible_eq:
                s2 = self.fork(st) if feasible_ne else st
                f2 = s2.frames[idx]
                d2 = self.resolve(s2, self.operand(s2, f2, t["discr"]))
                old = load(d2.discr.loc)
                name = table.get(d.value) if table else None
                ev = EnumV(adt, name, d.value, old.fields if isinstance(old, EnumV) and old.name == name else {})
                if isinstance(old, SymV):
                    ev.fields = {0: s2.fresh(("field0", old.desc))}
                    s2.facts[old.id] = ev
                    s2.trace.append(Event("assume", "variant", None, (snapshot(old), name), fr.bi, t["line"], len(s2.frames), fr.body.npath if fr.body else "?"))
                store(d2.discr.loc, ev)
                f2.bi = edge_for(not d.negate)
                out.append(s2)
            if feasible_ne:
                old = load(d.discr.loc)
                if remaining is not None and len(remaining) == 1:
                    store(d.discr.loc, EnumV(adt, table[remaining[0]], remaining[0], {}))
                elif not isinstance(old, SymV):
                    store(d.discr.loc, EnumV(adt, None, None, {}, frozenset(set(excluded) | {d.value})))
                fr.bi = edge_for(d.negate)
                out.append(st)
            return out
        if isinstance(d, DiscrV):
            cur = self.resolve(st, load(d.loc))
            excluded = cur.excluded if isinstance(cur, EnumV) else frozenset()
            adt = d.adt or (cur.adt if isinstance(cur, EnumV) else None)
            table = self.enum_tables.get(strip_generics(adt or ""))
            # explicit targets
            idx = len(st.frames) - 1
            for tv, bb in targets:
                if tv in excluded:
                    continue
                if table is not None and tv not in table:
                    continue
                s2 = self.fork(st)
                f2 = s2.frames[idx]
                d2 = self.resolve(s2, self.operand(s2, f2, t["discr"]))
                name = table.get(tv) if table else None
                old = load(d2.loc)
                fields = old.fields if isinstance(old, EnumV) and old.name == name else {}
                ev = EnumV(adt, name, tv, fields)
                if isinstance(old, SymV):
                    ev.fields = {0: s2.fresh(("field0", old.desc))}
                    s2.facts[old.id] = ev
                    s2.trace.append(Event("assume", "variant", None, (snapshot(old), name), fr.bi, t["line"], len(s2.frames), fr.body.npath if fr.body else "?"))
                store(d2.loc, ev)
                f2.bi = bb
                out.append(s2)
            # otherwise edge: feasible iff some variant remains
            covered = {tv for tv, _ in targets} | set(excluded)
            other_bb = t["otherwise"]
            remaining = None
            if table is not None:
                remaining = [dv for dv in table if dv not in covered]
            if remaining is None or remaining:
                if fr.mir.blocks[other_bb]["term"]["k"] == "unreachable" and not fr.mir.blocks[other_bb]["stmts"] and table is None:
                    pass
                else:
                    s2 = st  # reuse
                    d2 = d
                    old = load(d2.loc)
                    if remaining is not None and len(remaining) == 1:
                        ev = EnumV(adt, table[remaining[0]], remaining[0], {})
                        if isinstance(old, SymV):
                            ev.fields = {0: st.fresh(("field0", old.desc))}
                            st.facts[old.id] = ev
                            st.trace.append(Event("assume", "variant", None, (snapshot(old), ev.name), fr.bi, t["line"], len(st.frames), fr.body.npath if fr.body else "?"))
                        store(d2.loc, ev)
                    else:
                        if isinstance(old, SymV):
                            st.trace.append(Event("assume", "variant-other", None, (snapshot(old), tuple(sorted(table.get(c_, c_) if table else c_ for c_ in covered))), fr.bi, t["line"], len(st.frames), fr.body.npath if fr.body else "?"))
                        store(d2.loc, EnumV(adt, None, None, {}, frozenset(covered)))
                    fr.bi = other_bb
                    out.append(s2)
            return out
        # unknown scalar: fork all edges, binding symbols
        idx = len(st.frames) - 1
        seen_bb = set()
        is_bool = dty == "bool"
        for tv, bb in targets:
            s2 = self.fork(st)
            f2 = s2.frames[idx]
            if isinstance(d, SymV):
                s2.facts[d.id] = K(bool(tv) if is_bool else tv)
                s2.trace.append(Event("assume", "sym", None, (snapshot(d), bool(tv) if is_bool else tv), fr.bi, t["line"], len(st.frames), fr.body.npath if fr.body else "?"))
            f2.bi = bb
            out.append(s2)
        s2 = st
        if isinstance(d, SymV):
            if is_bool and len(targets) == 1:
                val = not bool(targets[0][0])
                s2.facts[d.id] = K(val)
                s2.trace.append(Event("assume", "sym", None, (snapshot(d), val), fr.bi, t["line"], len(st.frames), fr.body.npath if fr.body else "?"))
            else:
                s2.trace.append(Event("assume", "sym-other", None, (snapshot(d), tuple(tv for tv, _ in targets)), fr.bi, t["line"], len(st.frames), fr.body.npath if fr.body else "?"))
        fr.bi = t["otherwise"]
        out.append(s2)
        return out

    # ---- calls ---------------------------------------------------------------------------------
    def call(self, st, fr, t):
        c = t["callee"]
        args = [self.operand(st, fr, a) for a in t["args"]]
        dest = self.place_loc(st, fr, t["dest"], for_write=True) if t.get("dest") is not None else None
        if "indirect" in c:
            fv = self.resolve(st, self.operand(st, fr, c["indirect"]))
            if isinstance(fv, FnV) and self.find_body(fv.path) is None and self.models.get(fv.path) is None and self.models.get(strip_generics(getattr(fv, "raw", None) or fv.path)) is None:
                # no body and no model: a tuple-struct / enum-variant constructor, or a trait function passed by name
                try:
                    res = self.call_closure(st, fr, fv, args, t)
                except Exception:
                    res = None
                if res is not None and res is not NotImplemented:
                    return self.finish_call(st, fr, res, dest, t.get("target"), t)
                name = rname = "<indirect>"
            elif isinstance(fv, FnV):
                name = rname = fv.path
                # the function item a pointer was made from carries its generic arguments: the call is recorded (and analysed
                # in place) like a direct call of that instantiation
                t = dict(t)
                t["callee"] = {"path": getattr(fv, "raw", None) or fv.path, "resolved": getattr(fv, "raw", None) or fv.path, "gargs": list(fv.gargs or ()), "resolved_gargs": list(fv.gargs or ()), "via_pointer": True}
            elif isinstance(fv, ClosureV):
                # a non-capturing closure coerced to a function pointer: called like the closure it is
                try:
                    res = self.call_closure(st, fr, fv, args, t)
                except Exception:
                    res = None
                if res is not None and res is not NotImplemented:
                    return self.finish_call(st, fr, res, dest, t.get("target"), t)
                name = rname = "<indirect>"
            else:
                name = rname = "<indirect>"
        else:
            u = fr.mir.unit
            name = u.qualify(strip_generics(c["path"]), c.get("krate"))
            rname = u.qualify(strip_generics(c["resolved"]), c.get("resolved_krate")) if c.get("resolved") else name
        if "indirect" not in c:
            # canonicalise re-exported paths of workspace functions to the name of the analysed body
            for dk in (c.get("resolved_dpath"), c.get("dpath")):
                b_ = self._bodies.get("dpath:" + dk) if dk else None
                if b_ is not None and b_.kind != "Closure":
                    if dk == c.get("resolved_dpath") or not c.get("resolved"):
                        rname = b_.npath
                    if dk == c.get("dpath"):
                        name = b_.npath if not c.get("trait") else name
                    break
        return self.do_call(st, fr, t, name, rname, args, dest, t.get("target"))

    def do_call(self, st, fr, t, name, rname, args, dest, target):
        c = t["callee"] if t is not None else {}
        line = t.get("line") if t is not None else "?"
        # documented wiring of user-provided trait methods to library defaults
        red = self.redirect.get(rname) or self.redirect.get(name)
        if callable(red):
            red = red(self, st, t, name, args)   # -> a Body, a path or None
        red_gargs = None
        if isinstance(red, tuple):
            red, red_gargs = red        # (body, generic arguments of that body as instantiated at this call)
        if red is not None and len(st.frames) < self.max_depth:
            body = red if not isinstance(red, str) else self.find_body(red)
            if body is not None:
                st.trace.append(Event("enter", red, red, tuple(snapshot(a) for a in args), fr.bi, line, len(st.frames), fr.body.npath if fr.body else "?"))
                nf = self.push_frame(st, body, args, dest, target)
                nf.gargs = tuple(red_gargs) if red_gargs is not None else self.concrete_gargs(st, c, resolved=True)
                return [st]
        # 1. closures called through Fn* traits
        if name.endswith(("FnOnce::call_once", "FnMut::call_mut", "Fn::call")) and args:
            f = self.resolve(st, args[0])
            while isinstance(f, RefV):
                f = self.resolve(st, load(Loc(f.cell, f.path)))
            tup = args[1] if len(args) > 1 else UNIT
            cargs = [tup.fields[i] for i in sorted(tup.fields)] if isinstance(tup, AggV) else []
            if isinstance(f, ClosureV):
                return self.enter_closure(st, fr, f, args[0], cargs, dest, target)
            if isinstance(f, FnV):
                return self.do_call(st, fr, t, f.path, f.path, cargs, dest, target)
        # 2. models
        cands = [self.models.get(rname), self.models.get(name)]
        if c.get("trait") and c.get("method"):
            cands.append(self.models.get(strip_generics(c["trait"]) + "::" + c["method"]))
        tried = []
        for m in cands:
            if m is None or any(m is x for x in tried):
                continue
            tried.append(m)
            res = m(self, st, fr, t, name, rname, args)
            if res is not NotImplemented:
                return self.finish_call(st, fr, res, dest, target, t)
        # 3. inline workspace bodies
        if (self.inline(name, rname) or self._derived_pure(self.find_body(rname))) and (len(st.frames) < self.max_depth or self._is_leaf(self.find_body(rname) or self.find_body(name))
                                                                                          or (self._derived_pure(self.find_body(rname)) and len(st.frames) < self.max_depth + 6)):
            # (a body that calls nothing cannot recurse: the depth bound, which exists to cut recursion, does not apply to it)
            body = self.find_body(rname) or self.find_body(name)
            if body is not None and body.kind != "Closure":
                st.trace.append(Event("enter", name, rname, tuple(snapshot(a) for a in args), fr.bi, line, len(st.frames), fr.body.npath if fr.body else "?"))
                nf = self.push_frame(st, body, args, dest, target)
                nf.gargs = self.concrete_gargs(st, c, resolved=True)
                return [st]
        # 4. event
        st.trace.append(Event("call", name, rname, tuple(snapshot(a) for a in args), fr.bi, line, len(st.frames), fr.body.npath if fr.body else "?", extra={"gargs": self.concrete_gargs(st, c), "self_ty": c.get("self_ty")}))
        # havoc memory reachable through &mut arguments
        for a in args:
            a = self.resolve(st, a)
            if isinstance(a, RefV) and a.mut:
                self.havoc(a)
        r = st.fresh(("ret", name, fr.bi, tuple(snapshot(a) for a in args)))
        return self.finish_call(st, fr, [(st, r)], dest, target, t)

    def _derived_pure(self, body):
        """`#[derive(PartialEq)]` / `#[derive(Default)]` of a workspace type: structural and free of effects, always analysed
        in place (a comparison with a unit variant is then a test of the discriminant, which refines the value compared)"""
        return body is not None and body.kind == "AssocFn" and body.j.get("mac") in (["PartialEq"], ["Default"]) and body.name in ("eq", "ne", "default")

    def _is_leaf(self, body):
        if body is None:
            return False
        c = getattr(self, "_leaf_cache", None)
        if c is None:
            c = self._leaf_cache = {}
        if body.npath not in c:
            c[body.npath] = not any(body.mir.blocks[bi]["term"]["k"] == "call" for bi in body.mir.live_blocks())
        return c[body.npath]

    def concrete_gargs(self, st, c, resolved=False):
        """generic arguments of a callee with the caller's generic parameters (FORMAT, T, N ...) replaced by what the
        enclosing analysed-in-place calls were instantiated with: each frame records the generic arguments of the
        call that created it, and the extractor records the parameter names of every function in the same order"""
        out = []
        src = (c.get("resolved_gargs") if resolved else None) or c.get("gargs") or ()
        for g in src:
            g = str(g)
            hops = 0
            while _GENERIC_PARAM.match(g) and hops < 8:
                hops += 1
                found = None
                for fr_ in reversed(st.frames):
                    if not fr_.gargs:
                        continue
                    names = (fr_.body.j.get("generics") if fr_.body is not None and hasattr(fr_.body, "j") else None) or None
                    if names and len(names) == len(fr_.gargs):
                        if g in names:
                            found = str(fr_.gargs[names.index(g)])
                        break
                    cand = [x for x in fr_.gargs if not _GENERIC_PARAM.match(str(x))]
                    if len(fr_.gargs) == 1 and len(cand) == 1:
                        found = str(cand[0])
                    break
                if found is None or found == g:
                    break
                g = found
            out.append(g)
        return tuple(out)

    def havoc(self, ref):
        cur = load(Loc(ref.cell, ref.path))
        if isinstance(cur, (K, EnumV, SymV, TopV, BytesV)):
            store(Loc(ref.cell, ref.path), TOP)
        elif isinstance(cur, AggV):
            # keep references (they are not replaced by the callee in the code we analyse), drop scalars
            for i, v in list(cur.fields.items()):
                if not isinstance(v, (RefV, ClosureV, FnV)):
                    cur.fields[i] = TOP

    def finish_call(self, st, fr, res, dest, target, t):
        """res: list of (state, value) | a single value | ('diverge', state)"""
        if not isinstance(res, list):
            res = [(st, res)]
        out = []
        for s2, v in res:
            if s2.outcome is not None:
                out.append(s2)
                continue
            f2 = s2.frames[-1]
            if s2 is not st:
                d2 = self.place_loc(s2, f2, t["dest"], for_write=True) if (t is not None and t.get("dest") is not None) else None
            else:
                d2 = dest
            if d2 is not None:
                store(d2, v)
            if target is None:
                s2.outcome = "diverge"
            else:
                f2.bi = target
            out.append(s2)
        return out

    def enter_closure(self, st, fr, clo, clo_arg, cargs, dest, target):
        body = self.find_body(clo.defpath) or self.find_body(strip_generics(clo.defpath))
        if body is None:
            r = st.fresh(("ret-closure", clo.defpath))
            if dest is not None:
                store(dest, r)
            fr.bi = target
            return [st]
        # closure bodies take the environment (by value or by reference) as _1
        envty = body.mir.locals[1]["ty"] if len(body.mir.locals) > 1 else ""
        envval = AggV("closure-env", dict(clo.captures))
        if envty.startswith("&"):
            a1 = clo_arg if isinstance(self.resolve(st, clo_arg), RefV) else RefV(Cell(envval, "closure-env"), (), True)
            # clo_arg may be a ref to the ClosureV: build a ref to an env aggregate sharing capture values
            v = self.resolve(st, clo_arg)
            if isinstance(v, RefV):
                inner = load(Loc(v.cell, v.path))
                if isinstance(inner, ClosureV):
                    a1 = RefV(Cell(AggV("closure-env", inner.captures), "closure-env"), (), True)
        else:
            a1 = envval
        self.push_frame(st, body, [a1] + list(cargs), dest, target)
        return [st]

    def call_closure(self, st, fr, f, cargs, t):
        """Used by models: run closure/fn value `f` on cargs *to completion* and return list of (state, value).
        Implemented by a nested run on the same state (the nested frames sit on top of the stack)."""
        f = self.resolve(st, f)
        base = len(st.frames)
        tmp = Cell(TOP, "closure-ret")
        if isinstance(f, RefV):
            inner = load(Loc(f.cell, f.path))
            if isinstance(inner, (ClosureV, FnV)):
                f = inner
        if isinstance(f, ClosureV):
            self.enter_closure(st, fr, f, f, cargs, Loc(tmp), -1)
        elif isinstance(f, FnV):
            body = self.find_body(f.path)
            red_g = None
            if body is None:
                # a trait function passed by name (`.map(T::try_from)`): the same redirects as for a direct call, with the
                # generic arguments the function value was instantiated with
                red = self.redirect.get(f.path)
                if callable(red):
                    synth = {"callee": {"path": f.path, "gargs": [str(g) for g in f.gargs], "trait": f.path.rsplit("::", 1)[0], "method": f.path.rsplit("::", 1)[-1]}, "args": [], "line": (t or {}).get("line")}
                    red = red(self, st, synth, f.path, list(cargs))
                if isinstance(red, tuple):
                    red, red_g = red
                if red is not None and not isinstance(red, str):
                    body = red
                elif isinstance(red, str):
                    body = self.find_body(red)
                if body is not None:
                    nf_ = self.push_frame(st, body, list(cargs), Loc(tmp), -1)
                    nf_.gargs = tuple(red_g) if red_g is not None else self.concrete_gargs(st, {"gargs": [str(g) for g in f.gargs]})
                    body = "pushed"
            if body == "pushed":
                pass
            elif body is None or not (self.inline(f.path, f.path) or self.inline_fn_values):
                m = self.models.get(f.path)
                if m is not None:
                    r = m(self, st, fr, t, f.path, f.path, list(cargs))
                    if r is not NotImplemented and not isinstance(r, list):
                        return [(st, r)]
                # tuple-struct / enum-variant constructors used as functions
                last = f.path.split("::")[-1]
                if last in ("Some",):
                    return [(st, mk_option(cargs[0]))]
                if last == "Ok" and f.path.endswith("Result::Ok"):
                    return [(st, mk_ok(cargs[0]))]
                if last == "Err" and f.path.endswith("Result::Err"):
                    return [(st, mk_err(cargs[0]))]
                parent = f.path.rsplit("::", 1)[0] if "::" in f.path else ""
                tab = self.enum_tables.get(parent) or self.enum_tables.get(strip_generics(parent))
                if tab:
                    ds = [d for d, n_ in tab.items() if n_ == last]
                    if ds:
                        return [(st, EnumV(parent, last, ds[0], {i: a for i, a in enumerate(cargs)}))]
                st.trace.append(Event("call", f.path, f.path, tuple(snapshot(a) for a in cargs), fr.bi, "?", len(st.frames), fr.body.npath if fr.body else "?",
                                      extra={"gargs": self.concrete_gargs(st, {"gargs": [str(g) for g in (f.gargs or ())]}), "via_pointer": True}))
                return [(st, st.fresh(("ret", f.path)))]
            else:
                nf_ = self.push_frame(st, body, list(cargs), Loc(tmp), -1)
                if f.gargs:
                    nf_.gargs = tuple(f.gargs)      # a model that knows the instantiation hands it over with the function value
        else:
            return [(st, st.fresh(("ret-unknown-fn",)))]
        # run nested frames until the stack is back at `base`
        work = [st]
        out = []
        guard = 0
        while work:
            s = work.pop()
            guard += 1
            if guard > 100000:
                raise TooManyPaths("closure run")
            if s.outcome is not None:
                out.append((s, TOP))
                continue
            if len(s.frames) == base:
                # returned: the value is in the tmp cell of *this* state: find it via the frame's dest copy
                out.append((s, s.extra.pop("closure_ret", TOP)))
                continue
            top = s.frames[-1]
            if len(s.frames) == base + 1 and top.mir.blocks[top.bi]["term"]["k"] == "return":
                # intercept the return to fetch the value in this state's copy
                top.visits[top.bi] = top.visits.get(top.bi, 0)
                b = top.mir.blocks[top.bi]
                for s_ in b["stmts"]:
                    if s_["k"] == "assign":
                        self.assign(s, top, s_)
                rv = top.env.get(0)
                s.extra["closure_ret"] = rv.v if rv else UNIT
                s.frames.pop()
                work.append(s)
                continue
            try:
                work.extend(self.step(s))
            except Infeasible:
                continue
        return out


# ---- models ------------------------------------------------------------------------------------------

def _deref(eng, st, v):
    v = eng.resolve(st, v)
    n = 0
    while isinstance(v, RefV) and n < 8:
        v = eng.resolve(st, load(Loc(v.cell, v.path)))
        n += 1
    return v


def split2(eng, st, fr, t, v, adt, names):
    """Fork on an unknown Option/Result: returns [(state, EnumV)] with the unknown bound on each path."""
    out = []
    states = [st, eng.fork(st)]
    for s, (d, nm, nf) in zip(states, names):
        ev = EnumV(adt, nm, d, {0: s.fresh(("payload", nm, v.desc if isinstance(v, SymV) else snapshot(v)))} if nf else {})
        if isinstance(v, SymV):
            s.facts[v.id] = ev
        s.trace.append(Event("assume", "variant", None, (snapshot(v), nm), fr.bi, t.get("line") if t else "?", len(s.frames), fr.body.npath if fr.body else "?"))
        out.append((s, ev))
    return out


def split_result(eng, st, fr, t, v):
    return split2(eng, st, fr, t, v, "core::result::Result", [(0, "Ok", 1), (1, "Err", 1)])


def split_option(eng, st, fr, t, v):
    return split2(eng, st, fr, t, v, "core::option::Option", [(1, "Some", 1), (0, "None", 0)])


def lift(eng, fn, kind):
    """Wrap a model so that an unknown Option/Result argument is split into its variants first."""
    def m(eng_, st, fr, t, name, rname, args):
        v = eng_.resolve(st, args[0])
        if isinstance(v, EnumV) and v.name is not None:
            return fn(eng_, st, fr, t, name, rname, args)
        if isinstance(v, (RefV,)):
            return fn(eng_, st, fr, t, name, rname, args)
        parts = split_result(eng_, st, fr, t, v) if kind == "result" else split_option(eng_, st, fr, t, v)
        out = []
        for s, ev in parts:
            f2 = s.frames[-1]
            a2 = [ev] + [eng_.operand(s, f2, a) for a in t["args"][1:]] if s is not st else [ev] + list(args[1:])
            r = fn(eng_, s, f2, t, name, rname, a2)
            if r is NotImplemented:
                return NotImplemented
            if isinstance(r, list):
                out.extend(r)
            else:
                out.append((s, r))
        return out
    return m


def m_try_branch(eng, st, fr, t, name, rname, args):
    v = eng.resolve(st, args[0])
    if isinstance(v, EnumV) and v.name in ("Ok", "Some"):
        return EnumV("core::ops::ControlFlow", "Continue", 0, {0: v.fields.get(0, TOP)})
    if isinstance(v, EnumV) and v.name == "Err":
        return EnumV("core::ops::ControlFlow", "Break", 1, {0: mk_err(v.fields.get(0, TOP))})
    if isinstance(v, EnumV) and v.name == "None":
        return EnumV("core::ops::ControlFlow", "Break", 1, {0: mk_option(None)})
    # unknown: fork (Result is assumed unless the callee's self type says Option)
    is_opt = "option::Option" in (t["callee"].get("self_ty") or "") or "Option" in rname
    parts = split_option(eng, st, fr, t, v) if is_opt else split_result(eng, st, fr, t, v)
    out = []
    for s, ev in parts:
        if ev.name in ("Ok", "Some"):
            out.append((s, EnumV("core::ops::ControlFlow", "Continue", 0, {0: ev.fields.get(0, TOP)})))
        elif ev.name == "Err":
            out.append((s, EnumV("core::ops::ControlFlow", "Break", 1, {0: mk_err(ev.fields.get(0, TOP))})))
        else:
            out.append((s, EnumV("core::ops::ControlFlow", "Break", 1, {0: mk_option(None)})))
    return out


def _err_ty(s):
    """error type of a `Result<T, E>` type string (top-level second argument)"""
    s = str(s)
    if s.startswith("std::result::Result<"):
        s = "core" + s[3:]
    if not s.startswith("core::result::Result<"):
        return None
    inner = s[len("core::result::Result<"):-1]
    depth = 0
    for i, ch in enumerate(inner):
        if ch in "<([":
            depth += 1
        elif ch in ">)]":
            depth -= 1
        elif ch == "," and depth == 0:
            return inner[i + 1:].strip()
    return None


def _ty_head(s):
    return s.split("<")[0].strip().lstrip("&").strip()


def _same_ty_head(a, b):
    a, b = _ty_head(a), _ty_head(b)
    return bool(a) and bool(b) and (a == b or a.endswith("::" + b) or b.endswith("::" + a))


def workspace_from(eng, src_ty, dst_ty, val):
    """`<dst as From<src>>::from(val)` through the workspace's own impl when there is exactly one (evaluated as a pure
    function); None when there is none or it cannot be decided"""
    import re
    cache = eng.__dict__.setdefault("_from_impls", None)
    if cache is None:
        cache = []
        for u in eng.program.units:
            for b in u.bodies:
                if b.name == "from" and b.impl_trait and "convert::From<" in b.impl_trait and b.kind in ("Fn", "AssocFn"):
                    m = re.search(r"convert::From<(.*)>>$", b.impl_trait)
                    if m:
                        cache.append((b.impl_self or "", m.group(1), b))
        eng._from_impls = cache
    hits = [b for dst, src, b in cache if _same_ty_head(dst, dst_ty) and _same_ty_head(src, src_ty)]
    if len(hits) != 1:
        return None
    try:
        res = eng.run(hits[0], [val])
    except (TooManyPaths, RecursionError):
        return None
    if len(res) == 1 and res[0].outcome == "return":
        return res[0].retval
    return None


def _norm_ty(s):
    s = str(s).replace(" ", "")
    for pre in ("scpi::", "scpi_contrib::", "crate::"):
        s = s.replace(pre, "")
    import re
    s = re.sub(r"<'[a-z_]+>", "", re.sub(r"'[a-z_]+,", "", s))
    return re.sub(r"&'[a-z_]+(mut)?", lambda m_: "&" + (m_.group(1) or ""), s)


def conversion_redirect(eng, st, t, name, args):
    """Engine.redirect entry for TryInto::try_into / TryFrom::try_from / Into::into / From::from: when the workspace
    has exactly one impl converting the call's source type into its target type, analyse that impl in place"""
    import re
    idx = eng.__dict__.get("_conv_impls")
    if idx is None:
        idx = []
        for u in eng.program.units:
            for b in u.bodies:
                if b.name in ("try_from", "from") and b.impl_trait and b.kind in ("Fn", "AssocFn"):
                    m = re.search(r"convert::(TryFrom|From)<(.*)>>$", b.impl_trait)
                    if m:
                        idx.append((b.name, _norm_ty(b.impl_self or ""), _norm_ty(m.group(2)), b))
        eng._conv_impls = idx
    g = [_norm_ty(x) for x in eng.concrete_gargs(st, (t or {}).get("callee") or {})]
    if len(g) < 2:
        return None
    meth = name.split("::")[-1]
    src, dst = (g[0], g[1]) if meth in ("try_into", "into") else (g[1], g[0])
    want = "try_from" if meth.startswith("try_") else "from"
    hits = [b for nm, d, s_, b in idx if nm == want and d == dst and (s_ == src or _ty_head(s_) == _ty_head(src) and "<" in s_)]
    if len(hits) == 1:
        return hits[0]
    if not hits:
        # the source type named through a re-export (`scpi::parser::tokenizer::Token` for `...::token::Token`)
        hits = [b for nm, d, s_, b in idx if nm == want and d == dst and _ty_head(s_).split("::")[-1] == _ty_head(src).split("::")[-1]]
        if len(hits) == 1:
            return hits[0]
        hits = []
    if not hits:
        # a generic impl (`impl<T> TryFrom<Token> for Wrapper<T>`): same head (by last path segment, the type may be named
        # through a re-export), its single type parameter unified with the argument at the call
        def last(x):
            return _ty_head(x).split("::")[-1]
        m_dst = re.match(r"^([^<]+)<(.*)>$", dst)
        cand = []
        for nm, d, s_, b in idx:
            m_d = re.match(r"^([^<]+)<([A-Z][A-Za-z0-9]*)>$", d)
            if nm == want and m_d and m_dst and last(m_d.group(1)) == last(m_dst.group(1)) and (_ty_head(s_).split("::")[-1] == _ty_head(src).split("::")[-1]):
                names = b.j.get("generics") or []
                tp = [n_ for n_ in names if not n_.startswith("'")]
                if tp == [m_d.group(2)]:
                    cand.append((b, tuple(m_dst.group(2) if n_ == m_d.group(2) else n_ for n_ in names)))
        if len(cand) == 1:
            return cand[0]
    return None


def m_from_residual(eng, st, fr, t, name, rname, args):
    v = eng.resolve(st, args[0])
    if isinstance(v, EnumV) and v.name == "Err":
        g = (t or {}).get("callee", {}).get("gargs", [])
        if len(g) == 2 and _err_ty(g[0]) is not None and (_err_ty(g[0]) == _err_ty(g[1]) or (_err_ty(g[1]) is not None and _norm_ty(_err_ty(g[0])) == _norm_ty(_err_ty(g[1])))):
            return mk_err(v.fields.get(0, TOP))  # identity conversion (the same type, possibly named through another crate)
        if len(g) == 2 and _err_ty(g[0]) and _err_ty(g[1]):
            w = workspace_from(eng, _err_ty(g[1]), _err_ty(g[0]), v.fields.get(0, TOP))
            if w is not None:
                return mk_err(w)
        return mk_err(AggV("From::from", {0: v.fields.get(0, TOP)}))
    if isinstance(v, EnumV) and v.name == "None":
        return mk_option(None)
    return mk_err(TOP)


def m_into(eng, st, fr, t, name, rname, args):
    if "From<bool>" in (rname or "") and "core::convert::num" in (rname or ""):
        v = eng.resolve(st, args[0])
        if isinstance(v, RefV):
            v = eng.resolve(st, load(Loc(v.cell, v.path)))
        if isinstance(v, K) and isinstance(v.v, bool):
            return K(int(v.v))
    return AggV("From::from", {0: args[0]})


def m_opt_is_some(eng, st, fr, t, name, rname, args):
    v = _deref(eng, st, args[0])
    if isinstance(v, EnumV) and v.name is not None:
        return K(v.name == "Some")
    return NotImplemented


def m_opt_is_none(eng, st, fr, t, name, rname, args):
    v = _deref(eng, st, args[0])
    if isinstance(v, EnumV) and v.name is not None:
        return K(v.name == "None")
    return NotImplemented


def m_res_is_ok(eng, st, fr, t, name, rname, args):
    v = _deref(eng, st, args[0])
    if isinstance(v, EnumV) and v.name is not None:
        return K(v.name == "Ok")
    return NotImplemented


def m_res_is_err(eng, st, fr, t, name, rname, args):
    v = _deref(eng, st, args[0])
    if isinstance(v, EnumV) and v.name is not None:
        return K(v.name == "Err")
    return NotImplemented


def _split_through_ref(eng, st, fr, t, arg, kind, pred):
    """`arg` is a reference to an Option/Result; if the pointee is unknown fork on its variant (storing the
    refined value back) and answer pred(variant name) on each path."""
    v = eng.resolve(st, arg)
    if not isinstance(v, RefV):
        return NotImplemented
    inner = eng.resolve(st, load(Loc(v.cell, v.path)))
    if isinstance(inner, EnumV) and inner.name is not None:
        return K(pred(inner.name))
    if not isinstance(inner, (SymV, TopV)):
        return NotImplemented
    parts = split_result(eng, st, fr, t, inner) if kind == "result" else split_option(eng, st, fr, t, inner)
    out = []
    for s, ev in parts:
        f2 = s.frames[-1]
        a2 = eng.resolve(s, eng.operand(s, f2, t["args"][0])) if s is not st else v
        if isinstance(a2, RefV):
            store(Loc(a2.cell, a2.path), ev)
        out.append((s, K(pred(ev.name))))
    return out


def _as_ref(kind):
    """Result::as_ref / Option::as_ref (and as_mut): the same variant holding a reference to the payload where it lives"""
    def m(eng, st, fr, t, name, rname, args):
        v = eng.resolve(st, args[0])
        if not isinstance(v, RefV):
            return NotImplemented
        inner = eng.resolve(st, load(Loc(v.cell, v.path)))

        def wrap(ref, ev):
            if ev.name in ("None",):
                return mk_option(None)
            r = RefV(ref.cell, tuple(ref.path) + (0,), ref.mut)
            return mk_option(r) if ev.name == "Some" else mk_ok(r) if ev.name == "Ok" else mk_err(r)
        if isinstance(inner, EnumV) and inner.name is not None:
            return wrap(v, inner)
        if not isinstance(inner, (SymV, TopV)):
            return NotImplemented
        parts = split_result(eng, st, fr, t, inner) if kind == "result" else split_option(eng, st, fr, t, inner)
        out = []
        for s2, ev in parts:
            f2 = s2.frames[-1]
            a2 = eng.resolve(s2, eng.operand(s2, f2, t["args"][0])) if s2 is not st else v
            if isinstance(a2, RefV):
                store(Loc(a2.cell, a2.path), ev)
                out.append((s2, wrap(a2, ev)))
            else:
                out.append((s2, s2.fresh(("as_ref-undecided",))))
        return out
    return m


def m_is_ok2(eng, st, fr, t, name, rname, args):
    return _split_through_ref(eng, st, fr, t, args[0], "result", lambda n: n == "Ok")


def m_is_err2(eng, st, fr, t, name, rname, args):
    return _split_through_ref(eng, st, fr, t, args[0], "result", lambda n: n == "Err")


def m_is_some2(eng, st, fr, t, name, rname, args):
    return _split_through_ref(eng, st, fr, t, args[0], "option", lambda n: n == "Some")


def m_is_none2(eng, st, fr, t, name, rname, args):
    return _split_through_ref(eng, st, fr, t, args[0], "option", lambda n: n == "None")


def m_map_or(eng, st, fr, t, name, rname, args):
    v = eng.resolve(st, args[0])
    if isinstance(v, EnumV) and v.name in ("None", "Err"):
        return args[1]
    if isinstance(v, EnumV) and v.name in ("Some", "Ok"):
        return eng.call_closure(st, fr, args[2], [v.fields.get(0, TOP)], t)
    return NotImplemented


def m_opt_map(eng, st, fr, t, name, rname, args):
    v = eng.resolve(st, args[0])
    if isinstance(v, EnumV) and v.name == "None":
        return mk_option(None)
    if isinstance(v, EnumV) and v.name == "Some":
        return [(s, mk_option(r)) for s, r in eng.call_closure(st, fr, args[1], [v.fields.get(0, TOP)], t)]
    return NotImplemented


def m_res_map(eng, st, fr, t, name, rname, args):
    v = eng.resolve(st, args[0])
    if isinstance(v, EnumV) and v.name == "Err":
        return v
    if isinstance(v, EnumV) and v.name == "Ok":
        return [(s, mk_ok(r)) for s, r in eng.call_closure(st, fr, args[1], [v.fields.get(0, TOP)], t)]
    return NotImplemented


def m_res_map_err(eng, st, fr, t, name, rname, args):
    v = eng.resolve(st, args[0])
    if isinstance(v, EnumV) and v.name == "Ok":
        return v
    if isinstance(v, EnumV) and v.name == "Err":
        return [(s, mk_err(r)) for s, r in eng.call_closure(st, fr, args[1], [v.fields.get(0, TOP)], t)]
    return NotImplemented


def m_res_and_then(eng, st, fr, t, name, rname, args):
    v = eng.resolve(st, args[0])
    if isinstance(v, EnumV) and v.name == "Err":
        return v
    if isinstance(v, EnumV) and v.name == "Ok":
        return eng.call_closure(st, fr, args[1], [v.fields.get(0, TOP)], t)
    return NotImplemented


def split_boolv(eng, st, fr, t, v):
    """Fork on an unknown bool: [(state, True), (state, False)], binding the symbol on each path (as `switch` does)."""
    v = eng.resolve(st, v)
    if isinstance(v, K):
        return [(st, bool(v.v))]
    out = []
    s2 = eng.fork(st)
    for s, val in ((st, True), (s2, False)):
        if isinstance(v, SymV):
            s.facts[v.id] = K(val)
            s.trace.append(Event("assume", "sym", None, (snapshot(v), val), fr.bi, t.get("line") if t else "?", len(s.frames), fr.body.npath if fr.body else "?"))
        out.append((s, val))
    return out


def m_bool_then(eng, st, fr, t, name, rname, args):
    """bool::then(f) / bool::then_some(v)"""
    lazy = name.endswith("::then")
    out = []
    for s, val in split_boolv(eng, st, fr, t, args[0]):
        f2 = s.frames[-1]
        a1 = args[1] if s is st else eng.operand(s, f2, t["args"][1])
        if not val:
            out.append((s, mk_option(None)))
        elif lazy:
            out.extend((s3, mk_option(r)) for s3, r in eng.call_closure(s, f2, a1, [], t))
        else:
            out.append((s, mk_option(a1)))
    return out


def m_inspect(eng, st, fr, t, name, rname, args):
    """Result::inspect / Result::inspect_err / Option::inspect: the closure sees a reference to the payload, the value is returned as it is"""
    v = eng.resolve(st, args[0])
    if not (isinstance(v, EnumV) and v.name is not None):
        return NotImplemented
    want = "Err" if name.endswith("inspect_err") else ("Some" if "option" in name else "Ok")
    if v.name != want:
        return v
    cell = Cell(v.fields.get(0, TOP), "inspected")
    out = []
    for s, _ in eng.call_closure(st, fr, args[1], [RefV(cell)], t):
        out.append((s, v))
    return out


def m_opt_filter(eng, st, fr, t, name, rname, args):
    v = eng.resolve(st, args[0])
    if isinstance(v, EnumV) and v.name == "None":
        return v
    if isinstance(v, EnumV) and v.name == "Some":
        cell = Cell(v.fields.get(0, TOP), "filtered")
        out = []
        for s, r in eng.call_closure(st, fr, args[1], [RefV(cell)], t):
            if s.outcome is not None:
                out.append((s, TOP))
                continue
            f2 = s.frames[-1]
            for s3, keep in split_boolv(eng, s, f2, t, r):
                out.append((s3, v if keep else mk_option(None)))
        return out
    return NotImplemented


def m_res_or_else(eng, st, fr, t, name, rname, args):
    v = eng.resolve(st, args[0])
    if isinstance(v, EnumV) and v.name == "Ok":
        return v
    if isinstance(v, EnumV) and v.name == "Err":
        return eng.call_closure(st, fr, args[1], [v.fields.get(0, TOP)], t)
    return NotImplemented


def m_opt_transpose(eng, st, fr, t, name, rname, args):
    v = eng.resolve(st, args[0])
    if isinstance(v, EnumV) and v.name == "None":
        return mk_ok(mk_option(None))
    if isinstance(v, EnumV) and v.name == "Some":
        inner = eng.resolve(st, v.fields.get(0, TOP))
        if isinstance(inner, EnumV) and inner.name == "Ok":
            return mk_ok(mk_option(inner.fields.get(0, TOP)))
        if isinstance(inner, EnumV) and inner.name == "Err":
            return mk_err(inner.fields.get(0, TOP))
        out = []
        for s2, ev in split_result(eng, st, fr, t, inner):
            out.append((s2, mk_ok(mk_option(ev.fields.get(0, TOP))) if ev.name == "Ok" else mk_err(ev.fields.get(0, TOP))))
        return out
    return NotImplemented


def m_res_transpose(eng, st, fr, t, name, rname, args):
    v = eng.resolve(st, args[0])
    if isinstance(v, EnumV) and v.name == "Err":
        return mk_option(mk_err(v.fields.get(0, TOP)))
    if isinstance(v, EnumV) and v.name == "Ok":
        inner = eng.resolve(st, v.fields.get(0, TOP))
        if isinstance(inner, EnumV) and inner.name == "Some":
            return mk_option(mk_ok(inner.fields.get(0, TOP)))
        if isinstance(inner, EnumV) and inner.name == "None":
            return mk_option(None)
        out = []
        for s2, ev in split_option(eng, st, fr, t, inner):
            out.append((s2, mk_option(mk_ok(ev.fields.get(0, TOP))) if ev.name == "Some" else mk_option(None)))
        return out
    return NotImplemented


def m_opt_and_then(eng, st, fr, t, name, rname, args):
    v = eng.resolve(st, args[0])
    if isinstance(v, EnumV) and v.name == "None":
        return mk_option(None)
    if isinstance(v, EnumV) and v.name == "Some":
        return eng.call_closure(st, fr, args[1], [v.fields.get(0, TOP)], t)
    return NotImplemented


def m_opt_or_else(eng, st, fr, t, name, rname, args):
    v = eng.resolve(st, args[0])
    if isinstance(v, EnumV) and v.name == "Some":
        return v
    if isinstance(v, EnumV) and v.name == "None":
        return eng.call_closure(st, fr, args[1], [], t)
    return NotImplemented


def m_opt_or(eng, st, fr, t, name, rname, args):
    v = eng.resolve(st, args[0])
    if isinstance(v, EnumV) and v.name == "Some":
        return v
    if isinstance(v, EnumV) and v.name == "None":
        return args[1]
    return NotImplemented


def m_res_ok(eng, st, fr, t, name, rname, args):
    v = eng.resolve(st, args[0])
    if isinstance(v, EnumV) and v.name == "Ok":
        return mk_option(v.fields.get(0, TOP))
    if isinstance(v, EnumV) and v.name == "Err":
        return mk_option(None)
    return NotImplemented


def m_res_err(eng, st, fr, t, name, rname, args):
    v = eng.resolve(st, args[0])
    if isinstance(v, EnumV) and v.name == "Err":
        return mk_option(v.fields.get(0, TOP))
    if isinstance(v, EnumV) and v.name == "Ok":
        return mk_option(None)
    return NotImplemented


def m_is_and(eng, st, fr, t, name, rname, args):
    v = eng.resolve(st, args[0])
    want = "Some" if "option" in name else "Ok"
    if isinstance(v, EnumV) and v.name == want:
        return eng.call_closure(st, fr, args[1], [v.fields.get(0, TOP)], t)
    if isinstance(v, EnumV) and v.name is not None:
        return K(False)
    return NotImplemented


def m_map_or_else(eng, st, fr, t, name, rname, args):
    v = eng.resolve(st, args[0])
    if isinstance(v, EnumV) and v.name in ("Some", "Ok"):
        return eng.call_closure(st, fr, args[2], [v.fields.get(0, TOP)], t)
    if isinstance(v, EnumV) and v.name == "None":
        return eng.call_closure(st, fr, args[1], [], t)
    if isinstance(v, EnumV) and v.name == "Err":
        return eng.call_closure(st, fr, args[1], [v.fields.get(0, TOP)], t)
    return NotImplemented


def m_opt_copied(eng, st, fr, t, name, rname, args):
    v = eng.resolve(st, args[0])
    if isinstance(v, EnumV) and v.name == "None":
        return v
    if isinstance(v, EnumV) and v.name == "Some":
        x = eng.resolve(st, v.fields.get(0, TOP))
        if isinstance(x, RefV):
            x = eng.resolve(st, load(Loc(x.cell, x.path)))
        return mk_option(x)
    return NotImplemented


def m_ok_or(eng, st, fr, t, name, rname, args):
    v = eng.resolve(st, args[0])
    if isinstance(v, EnumV) and v.name == "Some":
        return mk_ok(v.fields.get(0, TOP))
    if isinstance(v, EnumV) and v.name == "None":
        return mk_err(args[1])
    return NotImplemented


def m_ok_or_else(eng, st, fr, t, name, rname, args):
    v = eng.resolve(st, args[0])
    if isinstance(v, EnumV) and v.name == "Some":
        return mk_ok(v.fields.get(0, TOP))
    if isinstance(v, EnumV) and v.name == "None":
        return [(s, mk_err(r)) for s, r in eng.call_closure(st, fr, args[1], [], t)]
    return NotImplemented


def m_unwrap_or(eng, st, fr, t, name, rname, args):
    v = eng.resolve(st, args[0])
    if isinstance(v, EnumV) and v.name in ("Some", "Ok"):
        return v.fields.get(0, TOP)
    if isinstance(v, EnumV) and v.name in ("None", "Err"):
        return args[1]
    return NotImplemented


def m_unwrap(eng, st, fr, t, name, rname, args):
    v = eng.resolve(st, args[0])
    if not (isinstance(v, EnumV) and v.name is not None):
        return NotImplemented
    if v.name in ("Some", "Ok"):
        return v.fields.get(0, TOP)
    st.trace.append(Event("panic", name, None, (snapshot(v),), fr.bi, t.get("line") if t else "?", len(st.frames), fr.body.npath if fr.body else "?"))
    st.outcome = "panic"
    return [(st, TOP)]


def m_unwrap_or_default(eng, st, fr, t, name, rname, args):
    v = eng.resolve(st, args[0])
    if isinstance(v, EnumV) and v.name in ("Some", "Ok"):
        return v.fields.get(0, TOP)
    if isinstance(v, EnumV) and v.name in ("None", "Err"):
        # T::default() of a workspace type: evaluate its Default impl when it is a plain constructor
        g = tuple(t["callee"].get("gargs") or ()) if t is not None else ()
        ty = g[0] if g else None
        if ty in _INT_RANGE:
            return K(0)
        if ty == "bool":
            return K(False)
        if ty:
            want = strip_generics(ty).split("::")[-1]
            for key, b in eng._bodies.items():
                if key.startswith("dpath:") or b.name != "default" or "default::Default" not in (b.impl_trait or ""):
                    continue
                if strip_generics(b.impl_self or "").split("::")[-1] == want:
                    res = eng.call_closure(st, fr, FnV(b.npath), [], t)
                    if res:
                        return res
        return AggV("Default::default", {})
    return NotImplemented


def m_unwrap_or_else(eng, st, fr, t, name, rname, args):
    v = eng.resolve(st, args[0])
    if isinstance(v, EnumV) and v.name in ("Some", "Ok"):
        return v.fields.get(0, TOP)
    if isinstance(v, EnumV) and v.name == "Err":
        return eng.call_closure(st, fr, args[1], [v.fields.get(0, TOP)], t)
    if isinstance(v, EnumV) and v.name == "None":
        return eng.call_closure(st, fr, args[1], [], t)
    return NotImplemented


def m_deref_id(eng, st, fr, t, name, rname, args):
    return args[0]


def m_range_incl_new(eng, st, fr, t, name, rname, args):
    return AggV("core::ops::RangeInclusive", {0: args[0], 1: args[1], 2: K(False)})


def m_range_contains(eng, st, fr, t, name, rname, args):
    r = eng.resolve(st, args[0])
    x = eng.resolve(st, args[1])
    n = 0
    while isinstance(r, RefV) and n < 4:
        r = eng.resolve(st, load(Loc(r.cell, r.path)))
        n += 1
    n = 0
    while isinstance(x, RefV) and n < 4:
        x = eng.resolve(st, load(Loc(x.cell, x.path)))
        n += 1
    if not (isinstance(r, AggV) and isinstance(x, K)):
        return NotImplemented
    lo, hi = eng.resolve(st, r.fields.get(0)), eng.resolve(st, r.fields.get(1))
    if not (isinstance(lo, K) and isinstance(hi, K)):
        return NotImplemented
    if r.kind.split("::")[-1] == "RangeInclusive":
        return K(lo.v <= x.v <= hi.v)
    if r.kind.split("::")[-1] == "Range":
        return K(lo.v <= x.v < hi.v)
    return NotImplemented


def m_mem_replace(eng, st, fr, t, name, rname, args):
    r = eng.resolve(st, args[0])
    if not isinstance(r, RefV):
        return NotImplemented
    old = eng.resolve(st, load(Loc(r.cell, r.path)))
    store(Loc(r.cell, r.path), args[1])
    return old


def m_mem_swap(eng, st, fr, t, name, rname, args):
    a = eng.resolve(st, args[0])
    b = eng.resolve(st, args[1])
    if not (isinstance(a, RefV) and isinstance(b, RefV)):
        return NotImplemented
    va = load(Loc(a.cell, a.path))
    vb = load(Loc(b.cell, b.path))
    store(Loc(a.cell, a.path), vb)
    store(Loc(b.cell, b.path), va)
    return UNIT


def m_mem_take_int(eng, st, fr, t, name, rname, args):
    r = eng.resolve(st, args[0])
    g = tuple(t["callee"].get("gargs") or ())
    if not isinstance(r, RefV) or not g or (g[0] not in _INT_RANGE and g[0] != "bool"):
        return NotImplemented
    old = eng.resolve(st, load(Loc(r.cell, r.path)))
    store(Loc(r.cell, r.path), K(False) if g[0] == "bool" else K(0))
    return old


def m_clone(eng, st, fr, t, name, rname, args):
    v = eng.resolve(st, args[0])
    if isinstance(v, RefV):
        return copy.deepcopy(load(Loc(v.cell, v.path)))
    return NotImplemented


ARRAY_INTO_ITER = "array-into-iter"


def m_array_into_iter(eng, st, fr, t, name, rname, args):
    """`for x in [a, b, c]`: an array consumed by value"""
    v = eng.resolve(st, args[0])
    if isinstance(v, AggV) and v.kind == "array" and all(isinstance(k, int) for k in v.fields):
        return AggV(ARRAY_INTO_ITER, {0: K(0), 1: v, 2: K(len(v.fields))})
    return NotImplemented


def m_array_into_next(eng, st, fr, t, name, rname, args):
    v = eng.resolve(st, args[0])
    n = 0
    while isinstance(v, RefV) and n < 6:
        v = eng.resolve(st, load(Loc(v.cell, v.path)))
        n += 1
    if not (isinstance(v, AggV) and v.kind == ARRAY_INTO_ITER):
        return NotImplemented
    pos, arr, cnt = v.fields[0].v, v.fields[1], v.fields[2].v
    if pos < cnt:
        v.fields[0] = K(pos + 1)
        return mk_option(arr.fields[pos])
    return mk_option(None)



def m_partial_ne(eng, st, fr, t, name, rname, args):
    """`a != b` for a workspace type whose PartialEq is derived: core's provided `ne` is `!a.eq(b)`; the derived `eq` is
    analysed in place"""
    g = [_norm_ty(x) for x in eng.concrete_gargs(st, (t or {}).get("callee") or {})]
    if not g:
        return NotImplemented
    idx = eng.__dict__.get("_derived_eq")
    if idx is None:
        idx = [(_norm_ty(b.impl_self or ""), b) for u in eng.program.units for b in u.bodies if b.name == "eq" and b.kind == "AssocFn" and b.j.get("mac") == ["PartialEq"] and "core::cmp::PartialEq" in (b.impl_trait or "")]
        eng._derived_eq = idx
    hits = [b for ty, b in idx if ty == g[0] or _ty_head(ty).split("::")[-1] == _ty_head(g[0]).split("::")[-1] and _ty_head(ty).split("::")[-1] not in ("Token",)]
    if len(hits) != 1:
        hits = [b for ty, b in idx if ty == g[0]]
    if len(hits) != 1:
        return NotImplemented
    saved = eng.inline_fn_values
    eng.inline_fn_values = True
    try:
        res = eng.call_closure(st, fr, FnV(hits[0].npath), list(args), t)
    finally:
        eng.inline_fn_values = saved
    out = []
    for s2, v in res:
        v = eng.resolve(s2, v)
        out.append((s2, K(not v.v) if isinstance(v, K) and isinstance(v.v, bool) else s2.fresh(("unop", "Not", snapshot(v)))))
    return out


DEFAULT_MODELS = {
    "core::cmp::PartialEq::ne": m_partial_ne,
    "core::result::Result::as_ref": _as_ref("result"),
    "core::result::Result::as_mut": _as_ref("result"),
    "core::option::Option::as_ref": _as_ref("option"),
    "core::option::Option::as_mut": _as_ref("option"),
    "core::iter::IntoIterator::into_iter": m_array_into_iter,
    "core::iter::Iterator::next": m_array_into_next,
    "<core::array::IntoIter<T, N> as core::iter::Iterator>::next": m_array_into_next,
    "core::ops::Try::branch": m_try_branch,
    "<core::result::Result<T, E> as core::ops::Try>::branch": m_try_branch,
    "<core::option::Option<T> as core::ops::Try>::branch": m_try_branch,
    "core::ops::FromResidual::from_residual": m_from_residual,
    "<core::result::Result<T, F> as core::ops::FromResidual<core::result::Result<core::convert::Infallible, E>>>::from_residual": m_from_residual,
    "<core::option::Option<T> as core::ops::FromResidual<core::option::Option<core::convert::Infallible>>>::from_residual": m_from_residual,
    "core::convert::Into::into": m_into,
    "<T as core::convert::Into<U>>::into": m_into,
    "core::convert::From::from": m_into,
    "core::option::Option::is_some": m_is_some2,
    "core::option::Option::is_none": m_is_none2,
    "core::result::Result::is_ok": m_is_ok2,
    "core::result::Result::is_err": m_is_err2,
    "core::option::Option::map_or": lift(None, m_map_or, "option"),
    "core::option::Option::map": lift(None, m_opt_map, "option"),
    "core::result::Result::map": lift(None, m_res_map, "result"),
    "core::result::Result::map_err": lift(None, m_res_map_err, "result"),
    "core::result::Result::and_then": lift(None, m_res_and_then, "result"),
    "core::result::Result::or_else": lift(None, m_res_or_else, "result"),
    "core::bool::then": m_bool_then,
    "core::bool::then_some": m_bool_then,
    "core::result::Result::inspect_err": lift(None, m_inspect, "result"),
    "core::result::Result::inspect": lift(None, m_inspect, "result"),
    "core::option::Option::inspect": lift(None, m_inspect, "option"),
    "core::option::Option::filter": lift(None, m_opt_filter, "option"),
    "core::option::Option::transpose": lift(None, m_opt_transpose, "option"),
    "core::result::Result::transpose": lift(None, m_res_transpose, "result"),
    "core::option::Option::and_then": lift(None, m_opt_and_then, "option"),
    "core::option::Option::or_else": lift(None, m_opt_or_else, "option"),
    "core::option::Option::or": lift(None, m_opt_or, "option"),
    "core::result::Result::ok": lift(None, m_res_ok, "result"),
    "core::result::Result::err": lift(None, m_res_err, "result"),
    "core::option::Option::is_some_and": lift(None, m_is_and, "option"),
    "core::result::Result::is_ok_and": lift(None, m_is_and, "result"),
    "core::option::Option::map_or_else": lift(None, m_map_or_else, "option"),
    "core::result::Result::map_or_else": lift(None, m_map_or_else, "result"),
    "core::result::Result::map_or": lift(None, m_map_or, "result"),
    "core::option::Option::copied": lift(None, m_opt_copied, "option"),
    "core::option::Option::cloned": lift(None, m_opt_copied, "option"),
    "core::option::Option::ok_or": lift(None, m_ok_or, "option"),
    "core::option::Option::ok_or_else": lift(None, m_ok_or_else, "option"),
    "core::option::Option::unwrap_or": lift(None, m_unwrap_or, "option"),
    "core::result::Result::unwrap_or": lift(None, m_unwrap_or, "result"),
    "core::option::Option::unwrap": lift(None, m_unwrap, "option"),
    "core::option::Option::expect": lift(None, m_unwrap, "option"),
    "core::result::Result::unwrap": lift(None, m_unwrap, "result"),
    "core::result::Result::expect": lift(None, m_unwrap, "result"),
    "core::option::Option::unwrap_or_else": lift(None, m_unwrap_or_else, "option"),
    "core::result::Result::unwrap_or_else": lift(None, m_unwrap_or_else, "result"),
    "core::option::Option::unwrap_or_default": lift(None, m_unwrap_or_default, "option"),
    "core::result::Result::unwrap_or_default": lift(None, m_unwrap_or_default, "result"),
    "core::ops::Deref::deref": m_deref_id,
    "core::ops::DerefMut::deref_mut": m_deref_id,
    "core::clone::Clone::clone": m_clone,
    "core::mem::replace": m_mem_replace,
    "core::ops::RangeInclusive::new": m_range_incl_new,
    "core::ops::RangeInclusive::contains": m_range_contains,
    "core::ops::Range::contains": m_range_contains,
    "core::mem::swap": m_mem_swap,
    "core::mem::take": m_mem_take_int,
}
