"""Interval abstract interpreter for scalar MIR functions, with refinement by bisection of the
input interval: a comparison or switch that the current input interval does not decide makes the
caller split the interval and analyse both halves again.  The result is an exact decision table
(list of input intervals with one abstract result each) for functions over a finite scalar domain.
No concrete run of the program is involved; every step is an interval transfer function."""


class Undecided(Exception):
    pass


class Unsupported(Exception):
    pass


TOP = ("top",)


def iv(lo, hi=None):
    return ("iv", lo, lo if hi is None else hi)


def is_iv(v):
    return v[0] == "iv"


def single(v):
    return v[0] == "iv" and v[1] == v[2]


_BITS = {"i8": (8, True), "u8": (8, False), "i16": (16, True), "u16": (16, False), "i32": (32, True), "u32": (32, False), "i64": (64, True), "u64": (64, False), "isize": (64, True), "usize": (64, False), "i128": (128, True), "u128": (128, False), "bool": (1, False), "char": (32, False)}


def ty_range(ty):
    if ty in _BITS:
        b, s = _BITS[ty]
        if ty == "bool":
            return (0, 1)
        return (-(1 << (b - 1)), (1 << (b - 1)) - 1) if s else (0, (1 << b) - 1)
    return None


class Interp:
    def __init__(self, mir, call_model=None, max_steps=20000):
        self.mir = mir
        self.call_model = call_model
        self.max_steps = max_steps

    # -- places ----------------------------------------------------------------------------
    def read_place(self, env, p):
        v = env.get(p["l"], TOP)
        for pr in p["proj"]:
            k = pr["k"]
            if k == "field" and v[0] == "tuple" and pr["i"] < len(v[1]):
                v = v[1][pr["i"]]
            elif k == "deref" and v[0] == "ref":
                v = env.get(v[1], TOP)
            elif k == "deref" and v[0] == "pref":
                v = v[1]
            elif k == "index" and v[0] == "arr":
                i = env.get(pr["l"], TOP)
                if not is_iv(i):
                    return TOP
                if not single(i):
                    raise Undecided()
                if not (0 <= i[1] < len(v[1])):
                    raise Unsupported("index out of bounds")
                v = v[1][i[1]]
            else:
                return TOP
        return v

    def operand(self, env, o):
        if o["k"] in ("copy", "move"):
            return self.read_place(env, o["place"])
        if o["k"] == "const":
            c = o["c"]
            if "int" in c:
                return iv(int(c["int"]))
            if "bool" in c:
                return iv(1 if c["bool"] else 0)
            if "array_bytes" in c:
                return ("arr", [iv(int(x)) for x in c["array_bytes"]])
            if "bytes" in c:
                return ("pref", ("arr", [iv(int(x)) for x in c["bytes"]]))
            if "promoted" in c:
                body = getattr(self.mir, "owner", None)
                proms = body.promoted if body is not None else []
                if c["promoted"] < len(proms):
                    sub = Interp(proms[c["promoted"]], self.call_model, self.max_steps)
                    env2 = {}
                    r = sub.run({}, env_out=env2)
                    if r[0] == "ref":
                        return ("pref", env2.get(r[1], TOP))
                    return r
            return TOP
        return TOP

    # -- arithmetic --------------------------------------------------------------------------
    def binop(self, op, a, b, ty):
        if not (is_iv(a) and is_iv(b)):
            if op in ("Eq", "Ne", "Lt", "Le", "Gt", "Ge"):
                raise Unsupported("comparison on unknown value")
            return TOP
        al, ah, bl, bh = a[1], a[2], b[1], b[2]
        if op in ("Lt", "Le", "Gt", "Ge", "Eq", "Ne"):
            if op == "Lt":
                t, f = ah < bl, al >= bh
            elif op == "Le":
                t, f = ah <= bl, al > bh
            elif op == "Gt":
                t, f = al > bh, ah <= bl
            elif op == "Ge":
                t, f = al >= bh, ah < bl
            elif op == "Eq":
                t, f = (al == ah == bl == bh), (ah < bl or bh < al)
            else:
                t, f = (ah < bl or bh < al), (al == ah == bl == bh)
            if t:
                return iv(1)
            if f:
                return iv(0)
            raise Undecided()
        base = op.replace("WithOverflow", "").replace("Unchecked", "")
        if base == "Add":
            r = (al + bl, ah + bh)
        elif base == "Sub":
            r = (al - bh, ah - bl)
        elif base == "Mul":
            c = [al * bl, al * bh, ah * bl, ah * bh]
            r = (min(c), max(c))
        elif base in ("Div", "Rem", "Shl", "Shr", "BitAnd", "BitOr", "BitXor"):
            if not (single(a) and single(b)):
                raise Undecided()
            x, y = al, bl
            if base == "Div":
                if y == 0:
                    raise Unsupported("division by zero")
                q = abs(x) // abs(y)
                r0 = q if (x >= 0) == (y >= 0) else -q
            elif base == "Rem":
                if y == 0:
                    raise Unsupported("rem by zero")
                r0 = abs(x) % abs(y)
                r0 = r0 if x >= 0 else -r0
            elif base == "Shl":
                r0 = x << y
            elif base == "Shr":
                r0 = x >> y
            elif base == "BitAnd":
                r0 = x & y
            elif base == "BitOr":
                r0 = x | y
            else:
                r0 = x ^ y
            r = (r0, r0)
        else:
            raise Unsupported("binop " + op)
        rng = ty_range(ty)
        ov = iv(0)
        if rng is not None:
            if r[0] < rng[0] or r[1] > rng[1]:
                if r[0] > rng[1] or r[1] < rng[0]:
                    ov = iv(1)
                else:
                    ov = iv(0, 1)
                if "WithOverflow" not in op:
                    if single(("iv",) + r):
                        # wrap a single value
                        b_, s_ = _BITS[ty]
                        m = r[0] & ((1 << b_) - 1)
                        if s_ and m >= (1 << (b_ - 1)):
                            m -= 1 << b_
                        r = (m, m)
                    else:
                        raise Undecided()
        val = ("iv", r[0], r[1])
        if "WithOverflow" in op:
            if ov == iv(0, 1):
                raise Undecided()
            return ("tuple", [val, ov])
        return val

    def rvalue(self, env, rv):
        k = rv["k"]
        if k == "use":
            return self.operand(env, rv["a"])
        if k == "binop":
            return self.binop(rv["op"], self.operand(env, rv["a"]), self.operand(env, rv["b"]), rv.get("ty"))
        if k == "unop":
            a = self.operand(env, rv["a"])
            if not is_iv(a):
                return TOP
            if rv["op"] == "Not":
                if a[1] in (0, 1) and a[2] in (0, 1):
                    if single(a):
                        return iv(1 - a[1])
                    raise Undecided()
                if single(a):
                    return iv(~a[1])
                raise Undecided()
            if rv["op"] == "Neg":
                return ("iv", -a[2], -a[1])
            return TOP
        if k == "cast":
            a = self.operand(env, rv["a"])
            if rv["kind"] == "IntToInt" and is_iv(a):
                rng = ty_range(rv["ty"])
                if rng and a[1] >= rng[0] and a[2] <= rng[1]:
                    return a
                if rng and single(a):
                    b_, s_ = _BITS[rv["ty"]]
                    m = a[1] & ((1 << b_) - 1)
                    if s_ and m >= (1 << (b_ - 1)):
                        m -= 1 << b_
                    return iv(m)
                raise Undecided()
            return TOP
        if k == "ref":
            p = rv["place"]
            if not p["proj"]:
                return ("ref", p["l"])
            if len(p["proj"]) == 1 and p["proj"][0]["k"] == "deref":
                return env.get(p["l"], TOP)
            return TOP
        if k == "aggr" and rv["agg"] in ("tuple", "adt", "array"):
            vals = [self.operand(env, f) for f in rv["fields"]]
            return ("arr", vals) if rv["agg"] == "array" else ("tuple", vals)
        if k == "discr":
            v = self.read_place(env, rv["place"])
            if v[0] == "enum":
                return iv(v[1])
            return TOP
        return TOP

    # -- run ---------------------------------------------------------------------------------
    def deref(self, env, v):
        for _ in range(4):
            if v[0] == "ref":
                v = env.get(v[1], TOP)
            elif v[0] == "pref":
                v = v[1]
            else:
                break
        return v

    def builtin_call(self, env, t, args):
        """range membership on intervals"""
        p = t["callee"].get("path", "")
        if p.endswith("::new") and "RangeInclusive" in p and len(args) == 2:
            return ("tuple", [args[0], args[1], iv(0)])
        if p.endswith("::contains") and ("RangeInclusive" in p or "ops::Range" in p) and len(args) == 2:
            r = self.deref(env, args[0])
            x = self.deref(env, args[1])
            if r[0] == "tuple" and len(r[1]) >= 2 and is_iv(r[1][0]) and is_iv(r[1][1]) and single(r[1][0]) and single(r[1][1]) and is_iv(x):
                lo, hi = r[1][0][1], r[1][1][1]
                if "RangeInclusive" not in p:
                    hi -= 1
                if lo <= x[1] and x[2] <= hi:
                    return iv(1)
                if x[2] < lo or x[1] > hi:
                    return iv(0)
                raise Undecided()
        return None

    def run(self, init, env_out=None):
        env = dict(init) if env_out is None else env_out
        if env_out is not None:
            env.update(init)
        bi = 0
        steps = 0
        while True:
            steps += 1
            if steps > self.max_steps:
                raise Unsupported("step limit")
            b = self.mir.blocks[bi]
            for st in b["stmts"]:
                if st["k"] != "assign":
                    continue
                v = self.rvalue(env, st["rv"])
                p = st["place"]
                if not p["proj"]:
                    env[p["l"]] = v
                elif len(p["proj"]) == 1 and p["proj"][0]["k"] == "deref" and env.get(p["l"], TOP)[0] == "ref":
                    env[env[p["l"]][1]] = v
                else:
                    env[p["l"]] = TOP
            t = b["term"]
            k = t["k"]
            if k == "goto":
                bi = t["target"]
            elif k == "return":
                return env.get(0, TOP)
            elif k == "switch":
                d = self.operand(env, t["discr"])
                if not is_iv(d):
                    raise Unsupported("switch on unknown value in bb%d" % bi)
                nxt = None
                tgts = [(int(v), bb) for v, bb in t["targets"]]
                dty = t.get("dty", "")
                if dty in _BITS and _BITS[dty][1]:
                    bits_ = _BITS[dty][0]
                    tgts = [((v - (1 << bits_)) if v >= (1 << (bits_ - 1)) else v, bb) for v, bb in tgts]
                inside = [(v, bb) for v, bb in tgts if d[1] <= v <= d[2]]
                if single(d):
                    nxt = inside[0][1] if inside else t["otherwise"]
                elif not inside:
                    nxt = t["otherwise"]
                else:
                    # all values of the interval covered by explicit targets going to the same block?
                    tg = {bb for _, bb in inside}
                    if len(inside) == d[2] - d[1] + 1 and len(tg) == 1:
                        nxt = tg.pop()
                    else:
                        raise Undecided()
                bi = nxt
            elif k == "assert":
                c = self.operand(env, t["cond"])
                if not is_iv(c):
                    raise Unsupported("assert on unknown")
                if not single(c):
                    raise Undecided()
                if (c[1] != 0) != t["expected"]:
                    return ("panic", t["msg"], bi)
                bi = t["target"]
            elif k == "call":
                if self.call_model is None:
                    raise Unsupported("call")
                args = [self.operand(env, a) for a in t["args"]]
                r = self.builtin_call(env, t, args)
                if r is None:
                    r = self.call_model(t, args)
                if r is None:
                    raise Unsupported("unmodelled call %s" % t["callee"].get("path"))
                if r[0] == "panic":
                    return r
                if not t["dest"]["proj"]:
                    env[t["dest"]["l"]] = r
                if t["target"] is None:
                    return ("diverge",)
                bi = t["target"]
            elif k == "drop":
                bi = t["target"]
            elif k == "unreachable":
                return ("unreachable", bi)
            else:
                raise Unsupported("terminator " + k)


def decision_table(mir, make_init, lo, hi, call_model=None, limit=70000):
    """Analyse `mir` for the input interval [lo,hi], bisecting where undecided.
    make_init(interval_value) -> initial env. Returns list of (lo, hi, result)."""
    out = []
    stack = [(lo, hi)]
    evals = 0
    while stack:
        a, b = stack.pop()
        evals += 1
        if evals > limit:
            raise Unsupported("too many refinements")
        try:
            r = Interp(mir, call_model).run(make_init(("iv", a, b)))
            out.append((a, b, r))
        except Undecided:
            if a == b:
                raise Unsupported("undecided on a singleton input %d" % a)
            m = (a + b) // 2
            stack.append((m + 1, b))
            stack.append((a, m))
    out.sort()
    return out, evals
