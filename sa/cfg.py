"""CFG analyses over a facts.Mir: dominators, reachability, must-pass-through, path counting."""


def dominators(mir):
    """Returns dict block -> set of dominators (iterative; bodies are small)."""
    live = sorted(mir.live_blocks())
    allb = set(live)
    dom = {b: set(allb) for b in live}
    dom[0] = {0}
    changed = True
    while changed:
        changed = False
        for b in live:
            if b == 0:
                continue
            ps = [p for p in mir.preds(b) if p in allb]
            if not ps:
                new = {b}
            else:
                new = set.intersection(*(dom[p] for p in ps)) | {b}
            if new != dom[b]:
                dom[b] = new
                changed = True
    return dom


def postdominators(mir, exits=None):
    """block -> set of post-dominators w.r.t. the given exit blocks (default: return blocks)."""
    live = sorted(mir.live_blocks())
    allb = set(live)
    if exits is None:
        exits = set(mir.returns())
    pdom = {b: set(allb) for b in live}
    for e in exits:
        pdom[e] = {e}
    changed = True
    while changed:
        changed = False
        for b in live:
            if b in exits:
                continue
            ss = [s for s in mir.succs(b) if s in allb]
            if not ss:
                new = {b}
            else:
                new = set.intersection(*(pdom[s] for s in ss)) | {b}
            if new != pdom[b]:
                pdom[b] = new
                changed = True
    return pdom


def reachable(mir, start, avoid=(), edges_avoid=()):
    """Blocks reachable from `start` (a block or iterable of blocks) without entering `avoid` blocks.
    `start` blocks themselves are included even if in avoid is False. edges_avoid: set of (a,b)."""
    avoid = set(avoid)
    if isinstance(start, int):
        start = [start]
    seen = set()
    st = list(start)
    while st:
        b = st.pop()
        if b in seen:
            continue
        seen.add(b)
        for s in mir.succs(b):
            if s in avoid or (b, s) in edges_avoid:
                continue
            st.append(s)
    return seen


def must_pass_through(mir, start, through, exits):
    """True iff every path from `start` to any block in `exits` passes through a block in `through`
    (start itself counts if it is in `through`)."""
    through = set(through)
    if start in through:
        return True
    r = reachable(mir, start, avoid=through)
    return not (r & set(exits))


def offending_path(mir, start, avoid, goals):
    """A shortest path from start to a goal avoiding `avoid` (list of blocks) or None."""
    from collections import deque

    avoid = set(avoid)
    goals = set(goals)
    q = deque([start])
    par = {start: None}
    while q:
        b = q.popleft()
        if b in goals:
            p = []
            while b is not None:
                p.append(b)
                b = par[b]
            return p[::-1]
        for s in mir.succs(b):
            if s in par or s in avoid:
                continue
            par[s] = b
            q.append(s)
    return None


def back_edges(mir):
    dom = dominators(mir)
    out = []
    for b in mir.live_blocks():
        for s in mir.succs(b):
            if s in dom.get(b, ()):
                out.append((b, s))
    return out


def natural_loops(mir):
    """list of (header, set(body blocks)) per back edge header (merged)."""
    loops = {}
    for (t, h) in back_edges(mir):
        body = {h, t}
        st = [t]
        while st:
            x = st.pop()
            if x == h:
                continue
            for p in mir.preds(x):
                if p not in body:
                    body.add(p)
                    st.append(p)
        loops.setdefault(h, set()).update(body)
    return sorted(loops.items())


def sccs(nodes, succ):
    """Tarjan SCCs over arbitrary graph."""
    index = {}
    low = {}
    onst = set()
    st = []
    out = []
    counter = [0]

    import sys

    sys.setrecursionlimit(10000)

    def visit(v):
        index[v] = low[v] = counter[0]
        counter[0] += 1
        st.append(v)
        onst.add(v)
        for w in succ(v):
            if w not in index:
                visit(w)
                low[v] = min(low[v], low[w])
            elif w in onst:
                low[v] = min(low[v], index[w])
        if low[v] == index[v]:
            comp = []
            while True:
                w = st.pop()
                onst.discard(w)
                comp.append(w)
                if w == v:
                    break
            out.append(comp)

    for v in nodes:
        if v not in index:
            visit(v)
    return out


def count_on_paths(mir, start, is_event, exits, maximize=True, cut_back_edges=True):
    """Min or max number of event blocks on any path from start to a block in exits on the
    loop-cut CFG (back edges removed). Returns None if no path."""
    be = set(back_edges(mir)) if cut_back_edges else set()
    exits = set(exits)
    memo = {}

    def go(b, stack):
        if b in memo:
            return memo[b]
        here = 1 if is_event(b) else 0
        best = None
        if b in exits:
            best = here
        for s in mir.succs(b):
            if (b, s) in be or s in stack:
                continue
            r = go(s, stack | {b})
            if r is None:
                continue
            v = here + r
            if best is None or (maximize and v > best) or (not maximize and v < best):
                best = v
        memo[b] = best
        return best

    return go(start, frozenset())
