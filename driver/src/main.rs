//! scpi-facts: rustc_private fact extractor.
//!
//! Used as RUSTC_WORKSPACE_WRAPPER under `cargo +nightly check`. For every compilation unit whose
//! crate name is listed in SCPI_FACTS_CRATES (comma separated; default: scpi,scpi_contrib) it writes
//! one JSON file with the type-checked program (MIR bodies with resolved callees, constants, ADTs,
//! consts/statics, crate graph, unsafe blocks) into SCPI_FACTS_DIR. Nothing is executed.
#![feature(rustc_private)]
#![feature(box_patterns)]

extern crate rustc_abi;
extern crate rustc_driver;
extern crate rustc_hir;
extern crate rustc_interface;
extern crate rustc_middle;
extern crate rustc_span;

use rustc_driver::Compilation;
use rustc_hir::def::DefKind;
use rustc_hir::def_id::{DefId, LocalDefId};
use rustc_middle::mir::{self, interpret::Scalar, ConstValue};
use rustc_middle::ty::{self, print::with_no_trimmed_paths, Instance, Ty, TyCtxt, TypingEnv};
use rustc_span::Span;
use std::fmt::Write as _;

// ---------------------------------------------------------------------------------------------
// tiny JSON value
// ---------------------------------------------------------------------------------------------
enum J {
    Null,
    Bool(bool),
    Num(String),
    Str(String),
    Arr(Vec<J>),
    Obj(Vec<(&'static str, J)>),
}

fn s<T: Into<String>>(x: T) -> J {
    J::Str(x.into())
}
fn n<T: std::fmt::Display>(x: T) -> J {
    J::Num(format!("{x}"))
}

impl J {
    fn write(&self, out: &mut String) {
        match self {
            J::Null => out.push_str("null"),
            J::Bool(b) => out.push_str(if *b { "true" } else { "false" }),
            J::Num(x) => out.push_str(x),
            J::Str(x) => {
                out.push('"');
                for c in x.chars() {
                    match c {
                        '"' => out.push_str("\\\""),
                        '\\' => out.push_str("\\\\"),
                        '\n' => out.push_str("\\n"),
                        '\r' => out.push_str("\\r"),
                        '\t' => out.push_str("\\t"),
                        c if (c as u32) < 0x20 => {
                            let _ = write!(out, "\\u{:04x}", c as u32);
                        }
                        c => out.push(c),
                    }
                }
                out.push('"');
            }
            J::Arr(v) => {
                out.push('[');
                for (i, x) in v.iter().enumerate() {
                    if i > 0 {
                        out.push(',');
                    }
                    x.write(out);
                }
                out.push(']');
            }
            J::Obj(v) => {
                out.push('{');
                for (i, (k, x)) in v.iter().enumerate() {
                    if i > 0 {
                        out.push(',');
                    }
                    out.push('"');
                    out.push_str(k);
                    out.push_str("\":");
                    x.write(out);
                }
                out.push('}');
            }
        }
    }
}

// ---------------------------------------------------------------------------------------------
// extraction
// ---------------------------------------------------------------------------------------------
struct Cx<'tcx> {
    tcx: TyCtxt<'tcx>,
    ext_adts: std::cell::RefCell<std::collections::BTreeMap<String, J>>,
}

fn tystr(t: Ty<'_>) -> String {
    with_no_trimmed_paths!(format!("{t}"))
}

impl<'tcx> Cx<'tcx> {
    fn path(&self, d: DefId) -> String {
        with_no_trimmed_paths!(self.tcx.def_path_str(d))
    }

    /// remember the variant table of every enum whose discriminant is read or that is constructed
    fn note_adt(&self, t: Ty<'tcx>) {
        if let ty::Adt(adt, _) = t.kind() {
            if !adt.is_enum() {
                return;
            }
            let p = self.path(adt.did());
            if self.ext_adts.borrow().contains_key(&p) {
                return;
            }
            let mut vs = Vec::new();
            for (vi, v) in adt.variants().iter_enumerated() {
                let discr = format!("{}", adt.discriminant_for_variant(self.tcx, vi).val);
                vs.push(J::Obj(vec![("name", s(v.name.as_str())), ("discr", s(discr)), ("idx", n(vi.as_u32())), ("nfields", n(v.fields.len()))]));
            }
            self.ext_adts.borrow_mut().insert(p.clone(), J::Obj(vec![("path", s(p)), ("krate", s(self.tcx.crate_name(adt.did().krate).as_str())), ("variants", J::Arr(vs))]));
        }
    }

    /// crate-qualified definition path (independent of re-exports), e.g. scpi::parser::tokenizer::util::mnemonic_match
    fn dpath(&self, d: DefId) -> String {
        format!("{}{}", self.tcx.crate_name(d.krate).as_str(), self.tcx.def_path(d).to_string_no_crate_verbose())
    }

    fn loc(&self, sp: Span) -> String {
        if sp.is_dummy() {
            return "?".into();
        }
        let sm = self.tcx.sess.source_map();
        let p = sm.lookup_char_pos(sp.lo());
        let f = match &p.file.name {
            rustc_span::FileName::Real(r) => {
                with_no_trimmed_paths!(format!("{}", r.local_path().map(|p| p.display().to_string()).unwrap_or_else(|| "?".into())))
            }
            other => format!("{:?}", other),
        };
        format!("{}:{}", f, p.line)
    }

    fn macros(&self, sp: Span) -> J {
        if !sp.from_expansion() {
            return J::Null;
        }
        let mut v = Vec::new();
        for e in sp.macro_backtrace() {
            if let rustc_span::ExpnKind::Macro(_, name) = e.kind {
                v.push(s(name.as_str()));
            } else {
                v.push(s(format!("{:?}", e.kind)));
            }
        }
        J::Arr(v)
    }

    fn bytes_of_alloc(&self, p: rustc_middle::mir::interpret::Pointer, len: Option<usize>) -> Option<J> {
        let (prov, off) = p.into_raw_parts();
        let ga = self.tcx.global_alloc(prov.alloc_id());
        match ga {
            rustc_middle::mir::interpret::GlobalAlloc::Memory(a) => {
                let a = a.inner();
                let start = off.bytes_usize();
                let end = match len {
                    Some(l) => start + l,
                    None => a.len(),
                };
                if end > a.len() {
                    return None;
                }
                // refuse allocations that contain pointers (e.g. &[&[u8]])
                if !a.provenance().range_empty(
                    rustc_middle::mir::interpret::AllocRange { start: rustc_abi::Size::from_bytes(start as u64), size: rustc_abi::Size::from_bytes((end - start) as u64) },
                    &self.tcx,
                ) {
                    return None;
                }
                let b = a.inspect_with_uninit_and_ptr_outside_interpreter(start..end);
                Some(J::Arr(b.iter().map(|x| n(*x)).collect()))
            }
            rustc_middle::mir::interpret::GlobalAlloc::Static(d) => Some(J::Obj(vec![("static", s(self.path(d)))])),
            _ => None,
        }
    }

    fn const_value(&self, v: ConstValue, t: Ty<'tcx>) -> J {
        let mut o: Vec<(&'static str, J)> = vec![("ty", s(tystr(t)))];
        match v {
            ConstValue::Scalar(Scalar::Int(i)) => {
                let size = i.size();
                let bits = i.to_bits(size);
                match t.kind() {
                    ty::Bool => o.push(("bool", J::Bool(bits != 0))),
                    ty::Int(_) => {
                        let sh = 128 - size.bits();
                        let v = ((bits as i128) << sh) >> sh;
                        o.push(("int", s(format!("{v}"))));
                    }
                    ty::Uint(_) => o.push(("int", s(format!("{bits}")))),
                    ty::Char => o.push(("int", s(format!("{bits}")))),
                    ty::Float(_) => {
                        o.push(("fbits", s(format!("{bits}"))));
                        o.push(("fwidth", n(size.bits())));
                    }
                    _ => {
                        o.push(("raw", s(format!("{bits}"))));
                        o.push(("rawsize", n(size.bytes())));
                    }
                }
            }
            ConstValue::Scalar(Scalar::Ptr(p, _)) => {
                // &[u8; N] / &T constants
                let mut len = None;
                if let ty::Ref(_, inner, _) = t.kind() {
                    if let ty::Array(et, c) = inner.kind() {
                        if *et == self.tcx.types.u8 {
                            len = c.try_to_target_usize(self.tcx).map(|x| x as usize);
                            if let Some(b) = self.bytes_of_alloc(p, len) {
                                o.push(("bytes", b));
                            }
                        }
                    }
                }
                if len.is_none() {
                    let (prov, _) = p.into_raw_parts();
                    match self.tcx.global_alloc(prov.alloc_id()) {
                        rustc_middle::mir::interpret::GlobalAlloc::Static(d) => o.push(("static", s(self.path(d)))),
                        rustc_middle::mir::interpret::GlobalAlloc::Function { instance } => {
                            o.push(("fnptr", s(self.path(instance.def_id()))))
                        }
                        _ => o.push(("ptr", s("alloc"))),
                    }
                }
            }
            ConstValue::ZeroSized => match t.kind() {
                ty::FnDef(d, args) => {
                    o.push(("fn", s(self.path(*d))));
                    o.push(("gargs", J::Arr(args.iter().map(|a| s(with_no_trimmed_paths!(format!("{a}")))).collect())));
                }
                _ => o.push(("zst", J::Bool(true))),
            },
            ConstValue::Slice { alloc_id, meta } => {
                let a = self.tcx.global_alloc(alloc_id).unwrap_memory();
                let a = a.inner();
                let l = meta as usize;
                if l <= a.len() {
                    let b = a.inspect_with_uninit_and_ptr_outside_interpreter(0..l);
                    o.push(("bytes", J::Arr(b.iter().map(|x| n(*x)).collect())));
                }
            }
            ConstValue::Indirect { alloc_id, offset } => {
                o.push(("indirect", J::Bool(true)));
                // `const TABLE: [u8; N] = [..];` : the bytes of the array itself
                if let ty::Array(et, c) = t.kind() {
                    if *et == self.tcx.types.u8 {
                        if let Some(len) = c.try_to_target_usize(self.tcx) {
                            if let rustc_middle::mir::interpret::GlobalAlloc::Memory(a) = self.tcx.global_alloc(alloc_id) {
                                let a = a.inner();
                                let start = offset.bytes_usize();
                                let end = start + len as usize;
                                if end <= a.len() {
                                    let b = a.inspect_with_uninit_and_ptr_outside_interpreter(start..end);
                                    o.push(("array_bytes", J::Arr(b.iter().map(|x| n(*x)).collect())));
                                }
                            }
                        }
                    }
                }
                // `const X: &[u8] = b"..";` / `&str`: a wide pointer stored in memory
                if let ty::Ref(_, inner, _) = t.kind() {
                    let is_bytes = match inner.kind() {
                        ty::Slice(et) => *et == self.tcx.types.u8,
                        ty::Str => true,
                        _ => false,
                    };
                    if is_bytes {
                        if let Some(b) = v.try_get_slice_bytes_for_diagnostics(self.tcx) {
                            o.push(("bytes", J::Arr(b.iter().map(|x| n(*x)).collect())));
                        }
                    }
                }
            }
        }
        J::Obj(o)
    }

    fn constant(&self, c: &mir::ConstOperand<'tcx>, env: TypingEnv<'tcx>) -> J {
        let t = c.const_.ty();
        // promoted?
        if let mir::Const::Unevaluated(u, _) = c.const_ {
            if let Some(p) = u.promoted {
                return J::Obj(vec![("ty", s(tystr(t))), ("promoted", n(p.as_u32())), ("of", s(self.path(u.def)))]);
            }
        }
        let mut j = match c.const_.eval(self.tcx, env, c.span) {
            Ok(v) => self.const_value(v, t),
            Err(_) => J::Obj(vec![("ty", s(tystr(t))), ("uneval", s(with_no_trimmed_paths!(format!("{:?}", c.const_))))]),
        };
        if let mir::Const::Unevaluated(u, _) = c.const_ {
            if let J::Obj(ref mut o) = j {
                o.push(("def", s(self.path(u.def))));
                o.push(("defargs", J::Arr(u.args.iter().map(|a| s(with_no_trimmed_paths!(format!("{a}")))).collect())));
            }
        }
        j
    }

    fn place(&self, body: &mir::Body<'tcx>, p: &mir::Place<'tcx>) -> J {
        let mut proj = Vec::new();
        let mut cur = mir::PlaceTy::from_ty(body.local_decls[p.local].ty);
        for e in p.projection.iter() {
            let j = match e {
                mir::ProjectionElem::Deref => J::Obj(vec![("k", s("deref"))]),
                mir::ProjectionElem::Field(f, fty) => {
                    let mut name = format!("{}", f.as_u32());
                    if let ty::Adt(adt, _) = cur.ty.kind() {
                        let vi = cur.variant_index.unwrap_or(rustc_abi::FIRST_VARIANT);
                        if adt.is_enum() || adt.is_struct() || adt.is_union() {
                            if let Some(v) = adt.variants().get(vi) {
                                if let Some(fd) = v.fields.get(f) {
                                    name = fd.name.as_str().to_string();
                                }
                            }
                        }
                    }
                    J::Obj(vec![("k", s("field")), ("i", n(f.as_u32())), ("name", s(name)), ("ty", s(tystr(fty)))])
                }
                mir::ProjectionElem::Index(l) => J::Obj(vec![("k", s("index")), ("l", n(l.as_u32()))]),
                mir::ProjectionElem::ConstantIndex { offset, min_length, from_end } => J::Obj(vec![
                    ("k", s("constindex")),
                    ("offset", n(offset)),
                    ("min_length", n(min_length)),
                    ("from_end", J::Bool(from_end)),
                ]),
                mir::ProjectionElem::Subslice { from, to, from_end } => {
                    J::Obj(vec![("k", s("subslice")), ("from", n(from)), ("to", n(to)), ("from_end", J::Bool(from_end))])
                }
                mir::ProjectionElem::Downcast(name, vi) => J::Obj(vec![
                    ("k", s("downcast")),
                    ("v", s(name.map(|x| x.as_str().to_string()).unwrap_or_default())),
                    ("vi", n(vi.as_u32())),
                ]),
                mir::ProjectionElem::OpaqueCast(_) => J::Obj(vec![("k", s("opaquecast"))]),
                mir::ProjectionElem::UnwrapUnsafeBinder(_) => J::Obj(vec![("k", s("unwrapbinder"))]),
            };
            proj.push(j);
            cur = cur.projection_ty(self.tcx, e);
        }
        J::Obj(vec![("l", n(p.local.as_u32())), ("proj", J::Arr(proj))])
    }

    fn operand(&self, body: &mir::Body<'tcx>, o: &mir::Operand<'tcx>, env: TypingEnv<'tcx>) -> J {
        match o {
            mir::Operand::Copy(p) => J::Obj(vec![("k", s("copy")), ("place", self.place(body, p))]),
            mir::Operand::Move(p) => J::Obj(vec![("k", s("move")), ("place", self.place(body, p))]),
            mir::Operand::Constant(c) => J::Obj(vec![("k", s("const")), ("c", self.constant(c, env))]),
            other => J::Obj(vec![("k", s("other")), ("dbg", s(format!("{:?}", other)))]),
        }
    }

    fn rvalue(&self, body: &mir::Body<'tcx>, rv: &mir::Rvalue<'tcx>, env: TypingEnv<'tcx>) -> J {
        match rv {
            mir::Rvalue::Use(o, _) => J::Obj(vec![("k", s("use")), ("a", self.operand(body, o, env))]),
            mir::Rvalue::Repeat(o, c) => {
                J::Obj(vec![("k", s("repeat")), ("a", self.operand(body, o, env)), ("count", s(with_no_trimmed_paths!(format!("{c}"))))])
            }
            mir::Rvalue::Ref(_, bk, p) => {
                let m = matches!(bk, mir::BorrowKind::Mut { .. });
                J::Obj(vec![("k", s("ref")), ("mut", J::Bool(m)), ("place", self.place(body, p))])
            }
            mir::Rvalue::RawPtr(k, p) => {
                J::Obj(vec![("k", s("rawptr")), ("kind", s(format!("{:?}", k))), ("place", self.place(body, p))])
            }
            mir::Rvalue::Cast(k, o, t) => {
                let kind = match k {
                    mir::CastKind::PointerCoercion(pc, _) => format!("PointerCoercion({:?})", pc),
                    other => format!("{:?}", other),
                };
                J::Obj(vec![("k", s("cast")), ("kind", s(kind)), ("a", self.operand(body, o, env)), ("ty", s(tystr(*t))), ("from", s(tystr(o.ty(body, self.tcx))))])
            }
            mir::Rvalue::BinaryOp(op, box (a, b)) => J::Obj(vec![
                ("k", s("binop")),
                ("op", s(format!("{:?}", op))),
                ("a", self.operand(body, a, env)),
                ("b", self.operand(body, b, env)),
                ("ty", s(tystr(a.ty(body, self.tcx)))),
            ]),
            mir::Rvalue::UnaryOp(op, a) => J::Obj(vec![("k", s("unop")), ("op", s(format!("{:?}", op))), ("a", self.operand(body, a, env))]),
            mir::Rvalue::Discriminant(p) => {
                self.note_adt(p.ty(body, self.tcx).ty);
                self.rvalue_discr(body, p)
            }
            #[allow(unreachable_patterns)]
            mir::Rvalue::Discriminant(p) => J::Obj(vec![("k", s("discr")), ("place", self.place(body, p)), ("ty", s(tystr(p.ty(body, self.tcx).ty)))]),
            mir::Rvalue::Aggregate(box kind, fields) => {
                let mut o = vec![("k", s("aggr"))];
                match kind {
                    mir::AggregateKind::Array(t) => {
                        o.push(("agg", s("array")));
                        o.push(("ty", s(tystr(*t))));
                    }
                    mir::AggregateKind::Tuple => o.push(("agg", s("tuple"))),
                    mir::AggregateKind::Adt(d, vi, args, _, _) => {
                        let adt = self.tcx.adt_def(*d);
                        if adt.is_enum() {
                            self.note_adt(self.tcx.type_of(*d).instantiate_identity().skip_norm_wip());
                        }
                        o.push(("vi", n(vi.as_u32())));
                        let v = adt.variant(*vi);
                        o.push(("agg", s("adt")));
                        o.push(("adt", s(self.path(*d))));
                        o.push(("variant", s(v.name.as_str())));
                        o.push(("fieldnames", J::Arr(v.fields.iter().map(|f| s(f.name.as_str())).collect())));
                        o.push(("gargs", J::Arr(args.iter().map(|a| s(with_no_trimmed_paths!(format!("{a}")))).collect())));
                    }
                    mir::AggregateKind::Closure(d, _) => {
                        o.push(("agg", s("closure")));
                        o.push(("def", s(self.path(*d))));
                    }
                    other => {
                        o.push(("agg", s("other")));
                        o.push(("dbg", s(format!("{:?}", other))));
                    }
                }
                o.push(("fields", J::Arr(fields.iter().map(|f| self.operand(body, f, env)).collect())));
                J::Obj(o)
            }
            mir::Rvalue::CopyForDeref(p) => J::Obj(vec![("k", s("use")), ("a", J::Obj(vec![("k", s("copy")), ("place", self.place(body, p))])), ("deref_tmp", J::Bool(true))]),
            mir::Rvalue::ThreadLocalRef(d) => J::Obj(vec![("k", s("threadlocal")), ("def", s(self.path(*d)))]),
            other => J::Obj(vec![("k", s("other")), ("dbg", s(format!("{:?}", other)))]),
        }
    }

    fn rvalue_discr(&self, body: &mir::Body<'tcx>, p: &mir::Place<'tcx>) -> J {
        let t = p.ty(body, self.tcx).ty;
        let adt = match t.kind() {
            ty::Adt(a, _) => self.path(a.did()),
            _ => String::new(),
        };
        J::Obj(vec![("k", s("discr")), ("place", self.place(body, p)), ("ty", s(tystr(t))), ("adt", s(adt))])
    }

    fn callee(&self, body_did: Option<DefId>, func: &mir::Operand<'tcx>, body: &mir::Body<'tcx>, env: TypingEnv<'tcx>) -> J {
        let _ = body_did;
        if let Some((d, args)) = func.const_fn_def() {
            let mut o = vec![
                ("path", s(self.path(d))),
                ("dpath", s(self.dpath(d))),
                ("gargs", J::Arr(args.iter().map(|a| s(with_no_trimmed_paths!(format!("{a}")))).collect())),
                ("krate", s(self.tcx.crate_name(d.krate).as_str())),
            ];
            if let Some(tr) = self.tcx.trait_of_assoc(d) {
                o.push(("trait", s(self.path(tr))));
                o.push(("method", s(self.tcx.item_name(d).as_str())));
                if args.len() > 0 {
                    if let Some(t) = args.get(0).and_then(|a| a.as_type()) {
                        o.push(("self_ty", s(tystr(t))));
                    }
                }
            }
            if let Some(im) = self.tcx.impl_of_assoc(d) {
                o.push(("impl_self", s(tystr(self.tcx.type_of(im).instantiate_identity().skip_norm_wip()))));
                if let Some(tr) = self.tcx.impl_opt_trait_ref(im) {
                    o.push(("impl_trait", s(with_no_trimmed_paths!(format!("{}", tr.instantiate_identity().skip_norm_wip())))));
                }
            }
            match Instance::try_resolve(self.tcx, env, d, args) {
                Ok(Some(inst)) => {
                    let rd = inst.def_id();
                    o.push(("resolved", s(self.path(rd))));
                    o.push(("resolved_dpath", s(self.dpath(rd))));
                    o.push(("resolved_krate", s(self.tcx.crate_name(rd.krate).as_str())));
                    o.push(("resolved_gargs", J::Arr(inst.args.iter().map(|a| s(with_no_trimmed_paths!(format!("{a}")))).collect())));
                    o.push(("resolved_kind", s(format!("{:?}", std::mem::discriminant(&inst.def)).replace("Discriminant", ""))));
                    let ik = match inst.def {
                        ty::InstanceKind::Item(_) => "item",
                        ty::InstanceKind::Virtual(..) => "virtual",
                        ty::InstanceKind::Intrinsic(_) => "intrinsic",
                        ty::InstanceKind::ClosureOnceShim { .. } => "closure_once_shim",
                        ty::InstanceKind::FnPtrShim(..) => "fnptr_shim",
                        ty::InstanceKind::CloneShim(..) => "clone_shim",
                        ty::InstanceKind::DropGlue(..) => "drop_glue",
                        _ => "other",
                    };
                    o.push(("ikind", s(ik)));
                }
                _ => {}
            }
            J::Obj(o)
        } else {
            J::Obj(vec![("indirect", self.operand(body, func, env)), ("fty", s(tystr(func.ty(body, self.tcx))))])
        }
    }

    fn body(&self, did: Option<DefId>, body: &mir::Body<'tcx>, env: TypingEnv<'tcx>) -> J {
        let mut locals = Vec::new();
        let mut names: std::collections::HashMap<u32, String> = Default::default();
        for vdi in &body.var_debug_info {
            if let mir::VarDebugInfoContents::Place(p) = vdi.value {
                if p.projection.is_empty() {
                    names.insert(p.local.as_u32(), vdi.name.as_str().to_string());
                }
            }
        }
        // closure upvar names
        let mut upvars = Vec::new();
        for vdi in &body.var_debug_info {
            if let mir::VarDebugInfoContents::Place(p) = vdi.value {
                if !p.projection.is_empty() && p.local.as_u32() == 1 {
                    upvars.push(J::Obj(vec![("name", s(vdi.name.as_str())), ("place", self.place(body, &p))]));
                }
            }
        }
        for (l, d) in body.local_decls.iter_enumerated() {
            let mut o = vec![("ty", s(tystr(d.ty))), ("mut", J::Bool(d.mutability.is_mut()))];
            if let Some(nm) = names.get(&l.as_u32()) {
                o.push(("name", s(nm.clone())));
            }
            locals.push(J::Obj(o));
        }
        let mut blocks = Vec::new();
        for (_bb, data) in body.basic_blocks.iter_enumerated() {
            let mut stmts = Vec::new();
            for st in &data.statements {
                let sp = st.source_info.span;
                match &st.kind {
                    mir::StatementKind::Assign(box (p, rv)) => stmts.push(J::Obj(vec![
                        ("k", s("assign")),
                        ("place", self.place(body, p)),
                        ("rv", self.rvalue(body, rv, env)),
                        ("line", s(self.loc(sp))),
                        ("mac", self.macros(sp)),
                    ])),
                    mir::StatementKind::SetDiscriminant { place, variant_index } => stmts.push(J::Obj(vec![
                        ("k", s("setdiscr")),
                        ("place", self.place(body, place)),
                        ("vi", n(variant_index.as_u32())),
                    ])),
                    mir::StatementKind::Intrinsic(i) => stmts.push(J::Obj(vec![("k", s("intrinsic")), ("dbg", s(format!("{:?}", i)))])),
                    _ => {}
                }
            }
            let term = data.terminator();
            let sp = term.source_info.span;
            let mut t: Vec<(&'static str, J)> = vec![("line", s(self.loc(sp))), ("mac", self.macros(sp))];
            match &term.kind {
                mir::TerminatorKind::Goto { target } => {
                    t.push(("k", s("goto")));
                    t.push(("target", n(target.as_u32())));
                }
                mir::TerminatorKind::SwitchInt { discr, targets } => {
                    t.push(("k", s("switch")));
                    t.push(("discr", self.operand(body, discr, env)));
                    t.push(("dty", s(tystr(discr.ty(body, self.tcx)))));
                    let mut ts = Vec::new();
                    for (v, bb) in targets.iter() {
                        ts.push(J::Arr(vec![s(format!("{v}")), n(bb.as_u32())]));
                    }
                    t.push(("targets", J::Arr(ts)));
                    t.push(("otherwise", n(targets.otherwise().as_u32())));
                }
                mir::TerminatorKind::Return => t.push(("k", s("return"))),
                mir::TerminatorKind::Unreachable => t.push(("k", s("unreachable"))),
                mir::TerminatorKind::UnwindResume => t.push(("k", s("resume"))),
                mir::TerminatorKind::UnwindTerminate(_) => t.push(("k", s("terminate"))),
                mir::TerminatorKind::Drop { place, target, unwind, .. } => {
                    t.push(("k", s("drop")));
                    t.push(("place", self.place(body, place)));
                    t.push(("target", n(target.as_u32())));
                    if let mir::UnwindAction::Cleanup(bb) = unwind {
                        t.push(("cleanup", n(bb.as_u32())));
                    }
                }
                mir::TerminatorKind::Call { func, args, destination, target, unwind, .. } => {
                    t.push(("k", s("call")));
                    t.push(("callee", self.callee(did, func, body, env)));
                    t.push(("args", J::Arr(args.iter().map(|a| self.operand(body, &a.node, env)).collect())));
                    t.push(("argtys", J::Arr(args.iter().map(|a| s(tystr(a.node.ty(body, self.tcx)))).collect())));
                    t.push(("dest", self.place(body, destination)));
                    t.push(("target", match target {
                        Some(b) => n(b.as_u32()),
                        None => J::Null,
                    }));
                    if let mir::UnwindAction::Cleanup(bb) = unwind {
                        t.push(("cleanup", n(bb.as_u32())));
                    }
                }
                mir::TerminatorKind::TailCall { func, args, .. } => {
                    t.push(("k", s("tailcall")));
                    t.push(("callee", self.callee(did, func, body, env)));
                    t.push(("args", J::Arr(args.iter().map(|a| self.operand(body, &a.node, env)).collect())));
                }
                mir::TerminatorKind::Assert { cond, expected, msg, target, unwind } => {
                    t.push(("k", s("assert")));
                    t.push(("cond", self.operand(body, cond, env)));
                    t.push(("expected", J::Bool(*expected)));
                    let (kind, ops): (String, Vec<&mir::Operand<'tcx>>) = match &**msg {
                        mir::AssertKind::BoundsCheck { len, index } => ("BoundsCheck".into(), vec![len, index]),
                        mir::AssertKind::Overflow(op, a, b) => (format!("Overflow({:?})", op), vec![a, b]),
                        mir::AssertKind::OverflowNeg(a) => ("OverflowNeg".into(), vec![a]),
                        mir::AssertKind::DivisionByZero(a) => ("DivisionByZero".into(), vec![a]),
                        mir::AssertKind::RemainderByZero(a) => ("RemainderByZero".into(), vec![a]),
                        other => (format!("{:?}", other), vec![]),
                    };
                    t.push(("msg", s(kind)));
                    t.push(("ops", J::Arr(ops.iter().map(|o| self.operand(body, o, env)).collect())));
                    t.push(("target", n(target.as_u32())));
                    if let mir::UnwindAction::Cleanup(bb) = unwind {
                        t.push(("cleanup", n(bb.as_u32())));
                    }
                }
                mir::TerminatorKind::FalseEdge { real_target, .. } => {
                    t.push(("k", s("goto")));
                    t.push(("target", n(real_target.as_u32())));
                }
                mir::TerminatorKind::FalseUnwind { real_target, .. } => {
                    t.push(("k", s("goto")));
                    t.push(("target", n(real_target.as_u32())));
                }
                other => {
                    t.push(("k", s("other")));
                    t.push(("dbg", s(format!("{:?}", other))));
                }
            }
            blocks.push(J::Obj(vec![("stmts", J::Arr(stmts)), ("term", J::Obj(t)), ("cleanup", J::Bool(data.is_cleanup))]));
        }
        J::Obj(vec![
            ("arg_count", n(body.arg_count)),
            ("locals", J::Arr(locals)),
            ("upvars", J::Arr(upvars)),
            ("blocks", J::Arr(blocks)),
        ])
    }

    fn item_header(&self, ld: LocalDefId) -> Vec<(&'static str, J)> {
        let tcx = self.tcx;
        let did = ld.to_def_id();
        let kind = tcx.def_kind(did);
        let sp = tcx.def_span(did);
        let mut o = vec![
            ("path", s(self.path(did))),
            ("dpath", s(self.dpath(did))),
            ("kind", s(format!("{:?}", kind))),
            ("span", s(self.loc(sp))),
            ("mac", self.macros(sp)),
        ];
        if matches!(kind, DefKind::Fn | DefKind::AssocFn) {
            o.push(("vis", s(format!("{:?}", tcx.visibility(did)).split('(').next().unwrap_or("").to_string())));
            let sig = tcx.fn_sig(did).instantiate_identity().skip_norm_wip();
            o.push(("sig", s(with_no_trimmed_paths!(format!("{}", sig)))));
            o.push(("unsafe_fn", J::Bool(sig.safety().is_unsafe())));
            // names of the generic parameters, in the order call sites list their generic arguments
            let g = tcx.generics_of(did);
            let mut names = Vec::new();
            for i in 0..g.count() {
                names.push(s(g.param_at(i, tcx).name.as_str()));
            }
            o.push(("generics", J::Arr(names)));
        }
        // enclosing item chain
        let mut parent = tcx.opt_parent(did);
        if let Some(p) = parent {
            if matches!(tcx.def_kind(p), DefKind::Fn | DefKind::AssocFn | DefKind::Closure | DefKind::Const { .. } | DefKind::Static { .. } | DefKind::AssocConst { .. }) {
                o.push(("parent_fn", s(self.path(p))));
            }
        }
        // find impl
        let mut cur = Some(did);
        while let Some(c) = cur {
            if let DefKind::Impl { of_trait } = tcx.def_kind(c) {
                o.push(("impl_self", s(tystr(tcx.type_of(c).instantiate_identity().skip_norm_wip()))));
                if of_trait {
                    let tr = tcx.impl_trait_ref(c).instantiate_identity().skip_norm_wip();
                    o.push(("impl_trait", s(with_no_trimmed_paths!(format!("{}", tr)))));
                    o.push(("impl_trait_def", s(self.path(tr.def_id))));
                }
                break;
            }
            if let DefKind::Trait = tcx.def_kind(c) {
                o.push(("in_trait", s(self.path(c))));
                break;
            }
            cur = tcx.opt_parent(c);
            parent = cur;
        }
        let _ = parent;
        if matches!(kind, DefKind::AssocFn) {
            o.push(("name", s(tcx.item_name(did).as_str())));
        }
        o
    }
}

// HIR visitor counting user-written unsafe blocks per owner
struct UnsafeFinder<'tcx, 'a> {
    cx: &'a Cx<'tcx>,
    found: Vec<J>,
}
impl<'tcx, 'a> rustc_hir::intravisit::Visitor<'tcx> for UnsafeFinder<'tcx, 'a> {
    type NestedFilter = rustc_middle::hir::nested_filter::All;
    fn maybe_tcx(&mut self) -> TyCtxt<'tcx> {
        self.cx.tcx
    }
    fn visit_block(&mut self, b: &'tcx rustc_hir::Block<'tcx>) {
        if let rustc_hir::BlockCheckMode::UnsafeBlock(src) = b.rules {
            self.found.push(J::Obj(vec![
                ("line", s(self.cx.loc(b.span))),
                ("user", J::Bool(matches!(src, rustc_hir::UnsafeSource::UserProvided))),
                ("mac", self.cx.macros(b.span)),
                ("owner", s(self.cx.path(b.hir_id.owner.to_def_id()))),
            ]));
        }
        rustc_hir::intravisit::walk_block(self, b);
    }
}

fn extract(tcx: TyCtxt<'_>) -> String {
    let cx = Cx { tcx, ext_adts: Default::default() };
    let mut top: Vec<(&'static str, J)> = Vec::new();
    top.push(("crate", s(tcx.crate_name(rustc_hir::def_id::LOCAL_CRATE).as_str())));
    top.push(("crate_types", J::Arr(tcx.crate_types().iter().map(|t| s(format!("{:?}", t))).collect())));
    top.push(("is_test", J::Bool(tcx.sess.is_test_crate())));
    top.push(("debug_assertions", J::Bool(tcx.sess.opts.debug_assertions)));
    top.push(("overflow_checks", J::Bool(tcx.sess.overflow_checks())));
    let mut cfgs: Vec<String> = tcx
        .sess
        .config
        .iter()
        .filter(|(k, _)| k.as_str() == "feature")
        .filter_map(|(_, v)| v.map(|x| x.as_str().to_string()))
        .collect();
    cfgs.sort();
    top.push(("features", J::Arr(cfgs.into_iter().map(s).collect())));
    let mut crates: Vec<String> = tcx.crates(()).iter().map(|c| tcx.crate_name(*c).as_str().to_string()).collect();
    crates.sort();
    top.push(("crates", J::Arr(crates.into_iter().map(s).collect())));

    // ADTs, consts, statics
    let mut adts = Vec::new();
    let mut consts = Vec::new();
    let mut impls = Vec::new();
    for ld in tcx.hir_crate_items(()).definitions() {
        let did = ld.to_def_id();
        match tcx.def_kind(did) {
            DefKind::Enum | DefKind::Struct => {
                let adt = tcx.adt_def(did);
                let mut vs = Vec::new();
                for (vi, v) in adt.variants().iter_enumerated() {
                    let discr = if adt.is_enum() { format!("{}", adt.discriminant_for_variant(tcx, vi).val) } else { "0".into() };
                    let mut fs = Vec::new();
                    for f in v.fields.iter() {
                        fs.push(J::Obj(vec![
                            ("name", s(f.name.as_str())),
                            ("ty", s(tystr(tcx.type_of(f.did).instantiate_identity().skip_norm_wip()))),
                            ("vis", s(format!("{:?}", f.vis).split('(').next().unwrap_or("").to_string())),
                        ]));
                    }
                    vs.push(J::Obj(vec![("name", s(v.name.as_str())), ("discr", s(discr)), ("fields", J::Arr(fs))]));
                }
                adts.push(J::Obj(vec![
                    ("path", s(cx.path(did))),
                    ("kind", s(if adt.is_enum() { "enum" } else { "struct" })),
                    ("span", s(cx.loc(tcx.def_span(did)))),
                    ("variants", J::Arr(vs)),
                ]));
            }
            DefKind::Const { .. } | DefKind::AssocConst { .. } | DefKind::Static { .. } => {
                let kind = tcx.def_kind(did);
                let t = tcx.type_of(did).instantiate_identity().skip_norm_wip();
                let mut o = vec![("path", s(cx.path(did))), ("kind", s(format!("{:?}", kind))), ("ty", s(tystr(t))), ("span", s(cx.loc(tcx.def_span(did))))];
                if let DefKind::Static { mutability, .. } = kind {
                    o.push(("static_mut", J::Bool(mutability.is_mut())));
                    let env = TypingEnv::post_analysis(tcx, did);
                    o.push(("freeze", J::Bool(t.is_freeze(tcx, env))));
                }
                let generics = tcx.generics_of(did);
                if generics.count() == 0 && !matches!(kind, DefKind::Static { .. }) {
                    if let Ok(v) = tcx.const_eval_poly(did) {
                        o.push(("value", cx.const_value(v, t)));
                    }
                }
                consts.push(J::Obj(o));
            }
            DefKind::Impl { of_trait } => {
                let mut o = vec![
                    ("self_ty", s(tystr(tcx.type_of(did).instantiate_identity().skip_norm_wip()))),
                    ("span", s(cx.loc(tcx.def_span(did)))),
                    ("mac", cx.macros(tcx.def_span(did))),
                ];
                if of_trait {
                    let tr = tcx.impl_trait_ref(did).instantiate_identity().skip_norm_wip();
                    o.push(("trait", s(with_no_trimmed_paths!(format!("{}", tr)))));
                    o.push(("trait_def", s(cx.path(tr.def_id))));
                }
                let items: Vec<J> = tcx.associated_item_def_ids(did).iter().map(|d| s(cx.path(*d))).collect();
                o.push(("items", J::Arr(items)));
                impls.push(J::Obj(o));
            }
            _ => {}
        }
    }
    top.push(("adts", J::Arr(adts)));
    top.push(("consts", J::Arr(consts)));
    top.push(("impls", J::Arr(impls)));

    // unsafe blocks
    let mut uf = UnsafeFinder { cx: &cx, found: Vec::new() };
    tcx.hir_visit_all_item_likes_in_crate(&mut uf);
    top.push(("unsafe_blocks", J::Arr(uf.found)));

    // bodies
    let mut bodies = Vec::new();
    for ld in tcx.mir_keys(()).iter() {
        let did = ld.to_def_id();
        let kind = tcx.def_kind(did);
        let env = TypingEnv::post_analysis(tcx, did);
        let (body, bkind): (&mir::Body<'_>, &str) = match kind {
            DefKind::Fn | DefKind::AssocFn | DefKind::Closure => {
                if tcx.is_constructor(did) {
                    continue;
                }
                (tcx.optimized_mir(did), "fn")
            }
            DefKind::Const { .. } | DefKind::Static { .. } | DefKind::AssocConst { .. } | DefKind::InlineConst => (tcx.mir_for_ctfe(did), "const"),
            _ => continue,
        };
        let mut o = cx.item_header(*ld);
        o.push(("bkind", s(bkind)));
        o.push(("mir", cx.body(Some(did), body, env)));
        let mut proms = Vec::new();
        if bkind == "fn" || bkind == "const" {
            for pb in tcx.promoted_mir(did).iter() {
                proms.push(cx.body(Some(did), pb, env));
            }
        }
        o.push(("promoted", J::Arr(proms)));
        bodies.push(J::Obj(o));
    }
    top.push(("bodies", J::Arr(bodies)));
    let ext: Vec<J> = std::mem::take(&mut *cx.ext_adts.borrow_mut()).into_values().collect();
    top.push(("enum_tables", J::Arr(ext)));
    let mut out = String::new();
    J::Obj(top).write(&mut out);
    out
}

struct Cb {
    dir: String,
    tag: String,
}

impl rustc_driver::Callbacks for Cb {
    fn after_analysis<'tcx>(&mut self, _c: &rustc_interface::interface::Compiler, tcx: TyCtxt<'tcx>) -> Compilation {
        let out = extract(tcx);
        let name = tcx.crate_name(rustc_hir::def_id::LOCAL_CRATE);
        let kind = if tcx.sess.is_test_crate() { "test" } else { "lib" };
        let file = format!("{}/{}-{}-{}.json", self.dir, name.as_str(), kind, self.tag);
        let tmp = format!("{}.tmp{}", file, std::process::id());
        std::fs::write(&tmp, out).expect("write facts");
        std::fs::rename(&tmp, &file).expect("rename facts");
        Compilation::Continue
    }
}

struct NoCb;
impl rustc_driver::Callbacks for NoCb {}

fn main() -> std::process::ExitCode {
    let mut args: Vec<String> = std::env::args().collect();
    // as a cargo wrapper the real rustc path is argv[1]
    if args.len() > 1 && (args[1].ends_with("rustc") || args[1].ends_with("rustc.exe") || args[1].contains("/rustc")) && !args[1].starts_with('-') {
        args.remove(1);
    }
    let crate_name = args.iter().position(|a| a == "--crate-name").and_then(|i| args.get(i + 1)).cloned().unwrap_or_default();
    let wanted = std::env::var("SCPI_FACTS_CRATES").unwrap_or_else(|_| "scpi,scpi_contrib".into());
    let dir = std::env::var("SCPI_FACTS_DIR").ok();
    let is_build_script = crate_name.starts_with("build_script");
    let is_proc_macro = args.iter().any(|a| a == "proc-macro") || args.windows(2).any(|w| w[0] == "--crate-type" && w[1] == "proc-macro");
    let info_query = args.iter().any(|a| a.starts_with("--print") || a == "-vV" || a == "-V" || a == "--version");
    let emit = dir.is_some() && !is_build_script && !is_proc_macro && !info_query && wanted.split(',').any(|w| w == crate_name);
    if emit {
        // tag: hash of the argument vector so that several configurations of one crate do not collide
        let mut h: u64 = 0xcbf29ce484222325;
        for a in &args {
            if a.starts_with("--cfg") || a.starts_with("feature=") || a == "--test" || a.starts_with("-Copt-level") || a.starts_with("-Cdebug-assertions") || a.contains("opt-level") {
                for b in a.bytes() {
                    h ^= b as u64;
                    h = h.wrapping_mul(0x100000001b3);
                }
            }
        }
        let mut cb = Cb { dir: dir.unwrap(), tag: format!("{:016x}", h) };
        rustc_driver::catch_with_exit_code(|| rustc_driver::run_compiler(&args, &mut cb))
    } else {
        let mut cb = NoCb;
        rustc_driver::catch_with_exit_code(|| rustc_driver::run_compiler(&args, &mut cb))
    }
}
