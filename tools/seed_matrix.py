#!/usr/bin/env python3
"""Run every registered quick check against every seeded change (on scratch copies of /repo, never /repo itself)
and record which checks report which seeds.  usage: seed_matrix.py [workers]"""
import json, os, subprocess, sys, shutil, re
from concurrent.futures import ThreadPoolExecutor

VERIF = os.path.dirname(os.path.dirname(os.path.abspath(__file__)))
props = os.environ.get("PROPS", "").split() or ["C%02d" % i for i in range(1, 21)]
CORPUS = os.environ.get("CORPUS", "seeded")   # "seeded" (must be reported) or "refactors" (must stay silent)
seeds = sorted(d for d in os.listdir(os.path.join(VERIF, CORPUS)) if os.path.isdir(os.path.join(VERIF, CORPUS, d)))
workers = int(sys.argv[1]) if len(sys.argv) > 1 else 4
only = sys.argv[2:] or seeds


def run_seed(args):
    w, sid = args
    base = "/tmp/vscratch/%s%d-%d" % (CORPUS[0], os.getpid(), w)      # (per run: two matrices may run side by side)
    repo = base + "/repo"
    os.makedirs(base, exist_ok=True)
    subprocess.run(["rsync", "-a", "--delete", "--exclude", "target", "--exclude", ".git", "/repo/", repo + "/"], check=True)
    r = subprocess.run("patch -p1 -s < %s" % os.path.join(VERIF, CORPUS, sid, "patch.diff"), shell=True, cwd=repo, capture_output=True, text=True)
    if r.returncode != 0:
        return sid, {"error": "patch failed: " + r.stdout + r.stderr}
    env = dict(os.environ, SCPI_REPO=repo, SCPI_EVIDENCE_DIR=base + "/evidence", SCPI_VERIF_CACHE=base + "/cache")
    res = {}
    todo = props
    if os.environ.get("OWN_ONLY"):
        todo = [sid.split("-")[0][:3]] if sid[0] == "C" else props
    if os.environ.get("NEWRULES"):
        pr = subprocess.run(["python3", os.path.join(SNAP, "tools", "new_rules_check.py")], env=env, capture_output=True, text=True)
        out = pr.stdout + pr.stderr
        res["NEW"] = {"rc": pr.returncode, "rules": sorted(set(re.findall(r"^\[NEW\] (R[\w.]+|internal|anchor): ", out, flags=re.M))), "lines": [l for l in out.splitlines() if l.startswith(("[NEW]", "    "))][:8]}
        todo = os.environ.get("NEWRULES").split() if os.environ.get("NEWRULES") != "1" else []
    for p in todo:
        pr = subprocess.run([os.path.join(SNAP, "check"), p], env=env, capture_output=True, text=True)
        out = pr.stdout + pr.stderr
        viol = re.findall(r"^\[%s\] (R[\w.]+): " % p, out, flags=re.M)
        res[p] = {"rc": pr.returncode, "rules": sorted(set(viol))}
        if CORPUS != "seeded" and pr.returncode:
            res[p]["lines"] = [l for l in out.splitlines() if l.startswith("[%s] R" % p)][:6]
    return sid, res


SNAP = "/tmp/vscratch/snap-%s-%d" % (CORPUS, os.getpid())


def main():
    jobs = []
    # the checks run from a snapshot of /verif taken now, so that editing rules while a matrix runs does not mix versions
    os.makedirs(SNAP, exist_ok=True)
    subprocess.run(["rsync", "-a", "--delete", "--exclude", ".git", "--exclude", ".cache", "--exclude", "evidence", "--exclude", "seeded*", "--exclude", "refactors*", "--exclude", "driver/target/debug/deps", "--exclude", "driver/target/debug/build", "--exclude", "driver/target/debug/incremental", "--exclude", "driver/target/debug/.fingerprint", VERIF + "/", SNAP + "/"], check=True)
    with ThreadPoolExecutor(max_workers=workers) as ex:
        # a worker id per thread: round-robin static assignment
        chunks = [[] for _ in range(workers)]
        for i, s in enumerate(only):
            chunks[i % workers].append(s)
        def work(w):
            out = []
            for s in chunks[w]:
                out.append(run_seed((w, s)))
                print("done", s, {k: v["rules"] for k, v in out[-1][1].items() if isinstance(v, dict) and v.get("rc")}, flush=True)
            return out
        results = [r for part in ex.map(work, range(workers)) for r in part]
    table = dict(results)
    path = os.path.join(VERIF, CORPUS, "MATRIX.json")
    old = json.load(open(path)) if os.path.exists(path) else {}
    for k_, v_ in table.items():
        if isinstance(old.get(k_), dict) and isinstance(v_, dict) and 'error' not in v_ and (os.environ.get('PROPS') or os.environ.get('OWN_ONLY') or os.environ.get('NEWRULES')):
            old[k_].update(v_)
        else:
            old[k_] = v_
    json.dump(old, open(path, "w"), indent=1, sort_keys=True)
    shutil.rmtree(SNAP, ignore_errors=True)
    import glob
    for d in glob.glob("/tmp/vscratch/%s%d-*" % (CORPUS[0], os.getpid())):
        shutil.rmtree(d, ignore_errors=True)
    missed = [s for s, r in old.items() if isinstance(r, dict) and "error" not in r and not r.get(s.split("-")[0], {}).get("rc")]
    if CORPUS == "seeded":
        print("seeds:", len(old), "missed by own property's check:", missed)
    else:
        alarms = {s: [p for p, v in r.items() if isinstance(v, dict) and v.get("rc")] for s, r in old.items() if isinstance(r, dict)}
        print("refactors:", len(old), "false alarms:", {s: a for s, a in alarms.items() if a})


main()
