#!/bin/bash
# usage: tools/ingest_refactors4.sh 08 02 ...  -> copies /tmp/wt/T08/ref{A..D}.diff to refactors/U08-{A..D}/patch.diff (round 4)
for N in "$@"; do
  for K in A B C D; do
    f=/tmp/wt/T$N/ref$K.diff
    if [ -s "$f" ] && git -C /repo apply --check "$f" 2>/dev/null; then
      mkdir -p /verif/refactors/U$N-$K && cp "$f" /verif/refactors/U$N-$K/patch.diff && echo "U$N-$K ok"
    else
      echo "U$N-$K missing or does not apply"
    fi
  done
done
