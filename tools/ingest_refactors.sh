#!/bin/bash
# usage: tools/ingest_refactors.sh T07 ...  -> copies /tmp/wt/T07/ref{A,B,C,D}.diff to refactors/T07-{A..D}/patch.diff (after `git apply --check`)
for W in "$@"; do
  for K in A B C D; do
    f=/tmp/wt/$W/ref$K.diff
    if [ -s "$f" ] && git -C /tmp/wt/$W apply --check "$f" 2>/dev/null; then
      mkdir -p /verif/refactors/$W-$K && cp "$f" /verif/refactors/$W-$K/patch.diff && echo "$W-$K ok"
    else
      echo "$W-$K missing or does not apply"
    fi
  done
done
