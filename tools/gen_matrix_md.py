#!/usr/bin/env python3
"""Regenerate the two corpus tables of DESIGN.md (between the BEGIN/END markers) from seeded/MATRIX.json,
refactors/MATRIX.json and the meta.json files of the seeds."""
import json, os, re

VERIF = os.path.dirname(os.path.dirname(os.path.abspath(__file__)))


def seeds_table():
    m = json.load(open(os.path.join(VERIF, "seeded", "MATRIX.json")))
    lines = ["| seed | what it breaks (needs) | reported by its own property's check | also reported by |", "|---|---|---|---|"]
    missed = []
    for sid in sorted(m):
        r = m[sid]
        meta = {}
        mp = os.path.join(VERIF, "seeded", sid, "meta.json")
        if os.path.exists(mp):
            meta = json.load(open(mp))
        own = sid.split("-")[0]
        if "error" in r:
            lines.append("| %s | %s | (patch does not apply: %s) | |" % (sid, meta.get("needs", ""), r["error"][:40]))
            continue
        ownr = r.get(own, {})
        own_txt = ", ".join(ownr.get("rules", [])) if ownr.get("rc") else "**not reported**"
        if not ownr.get("rc"):
            missed.append(sid)
        others = ["%s (%s)" % (p, ", ".join(v["rules"]) or "fail-closed") for p, v in sorted(r.items()) if p != own and isinstance(v, dict) and v.get("rc")]
        lines.append("| %s | %s | %s | %s |" % (sid, (meta.get("needs") or "").replace("|", "\\|"), own_txt, "; ".join(others)))
    lines.append("")
    lines.append("%d seeds, %d reported by the check of the property they were written against%s." % (len(m), len(m) - len(missed), "" if not missed else " (not reported: %s)" % ", ".join(missed)))
    return "\n".join(lines)


def refactors_table():
    m = json.load(open(os.path.join(VERIF, "refactors", "MATRIX.json")))
    alarms = {}
    for sid, r in m.items():
        if "error" in r:
            alarms[sid] = ["patch does not apply"]
            continue
        a = [p for p, v in r.items() if isinstance(v, dict) and v.get("rc")]
        if a:
            alarms[sid] = a
    lines = ["%d behaviour-preserving refactorings x 20 checks = %d runs; runs that raised an alarm: %d." % (len(m), len(m) * 20, sum(len(v) for v in alarms.values()))]
    if alarms:
        lines.append("")
        lines.append("| refactoring | checks that (wrongly) report it |")
        lines.append("|---|---|")
        for sid in sorted(alarms):
            lines.append("| %s | %s |" % (sid, ", ".join(alarms[sid])))
    return "\n".join(lines)


def main():
    p = os.path.join(VERIF, "DESIGN.md")
    s = open(p).read()
    for tag, fn in (("SEED-MATRIX", seeds_table), ("REFACTOR-MATRIX", refactors_table)):
        a = "<!-- BEGIN %s -->" % tag
        b = "<!-- END %s -->" % tag
        if a in s and b in s:
            s = s[:s.index(a) + len(a)] + "\n" + fn() + "\n" + s[s.index(b):]
    open(p, "w").write(s)


main()
