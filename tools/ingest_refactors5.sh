#!/bin/bash
# usage: tools/ingest_refactors5.sh 01 02 ...  -> verifies /tmp/wt/V<nn>/out/ref{A..D}.diff (applies to HEAD, whole suite passes in both
# configurations) and stores the good ones as refactors/V<nn>-{A..D}/patch.diff (round 5)
for N in "$@"; do
  WT=/tmp/wt/rverify-$N
  [ -d $WT ] || git -C /repo worktree add -q --detach $WT HEAD
  for K in A B C D; do
    f=/tmp/wt/V$N/out/ref$K.diff
    if [ ! -s "$f" ]; then echo "V$N-$K missing"; continue; fi
    (cd $WT && git checkout -q -- . && git apply --check "$f" 2>/dev/null && git apply "$f") || { echo "V$N-$K does not apply"; continue; }
    r1=$(cd $WT && CARGO_NET_OFFLINE=true cargo test --workspace --no-fail-fast --offline 2>&1 | grep -E "^test result|^error" | awk '{p+=$4; f+=$6; if ($1=="error:" || $1 ~ /^error/) e+=1} END {print p" "f" "e+0}')
    r2=$(cd $WT && CARGO_NET_OFFLINE=true cargo test -p scpi --features arrayvec --offline 2>&1 | grep -E "^test result|^error" | awk '{p+=$4; f+=$6; if ($1 ~ /^error/) e+=1} END {print p" "f" "e+0}')
    (cd $WT && git checkout -q -- .)
    if [ "$r1" = "263 0 0" ] && [ "$r2" = "168 0 0" ]; then
      mkdir -p /verif/refactors/V$N-$K && cp "$f" /verif/refactors/V$N-$K/patch.diff && cp /tmp/wt/V$N/out/note$K.txt /verif/refactors/V$N-$K/note.txt 2>/dev/null; echo "V$N-$K ok"
    else
      echo "V$N-$K REJECTED suite: [$r1] [$r2]"
    fi
  done
  git -C /repo worktree remove --force $WT
done
