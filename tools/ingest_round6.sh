#!/bin/bash
# usage: tools/ingest_round6.sh 07   -> verifies /tmp/wt/L07/out/mut{A,B,C}.diff as seeds C07-{P,Q,R} and stores the confirmed ones
set -u
N=$1
P=C$N
T=/tmp/wt/ingest-L$N
rm -rf $T; mkdir -p $T
export VERIFY_WT=/tmp/wt/verify-$N
declare -A MAP=( [A]=P [B]=Q [C]=R )
for K in A B C; do
  L=${MAP[$K]}
  if [ -f /tmp/wt/L$N/out/mut$K.diff ] && [ -f /tmp/wt/L$N/out/demo$K.rs ]; then
    cp /tmp/wt/L$N/out/mut$K.diff $T/mut$L.diff; cp /tmp/wt/L$N/out/demo$K.rs $T/demo$L.rs
    needs=$(tr '\n' ' ' < /tmp/wt/L$N/out/needs$K.txt 2>/dev/null | cut -c1-600)
    python3 /verif/tools/verify_seed.py $P $L $T "$needs" 2>&1 | tail -1 | cut -c1-250
  else
    echo "$P-$L missing files"
  fi
done
rm -rf $T
git -C /repo worktree remove --force $VERIFY_WT 2>/dev/null
