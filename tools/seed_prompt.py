#!/usr/bin/env python3
"""Generate the prompt handed to a fresh seed-writing agent: the text of ONE property and its scratch worktree, nothing
from /verif's machinery.  usage: seed_prompt.py <prefix> [outdir]   (prefix J -> worktrees /tmp/wt/J01 .. J20)"""
import json, os, sys

T = """You are helping to evaluate a verification tool by writing realistic *property-breaking changes* to a Rust library. Your scratch area is the directory {wt} - a git worktree (detached HEAD) of the library scpi-rs (a no_std IEEE 488.2 / SCPI-1999 command parser, command-tree dispatcher, response formatter and status/error-queue commands; workspace crates scpi, scpi-contrib, scpi-derive). Work ONLY inside {wt}. Never read, list or write /repo or /verif, and do not look at other directories under /tmp/wt. The sandbox has no network: always pass --offline to cargo (prefix commands with CARGO_NET_OFFLINE=true).

THE PROPERTY (this is all you are given about what is being verified):

  {id}: {title}

  Statement: {statement}

  Quantified over: {quant}

  Code it is anchored in: {anchors}

YOUR TASK: produce THREE independent changes (call them A, B and C) to the library *source* (files under scpi/src, scpi-contrib/src or scpi-derive/src; never tests, examples or Cargo manifests), each one a diff against the unmodified worktree HEAD, such that each change on its own:

 1. compiles, and the whole existing test suite still passes with it:  `cargo test --workspace --no-fail-fast --offline`  AND  `cargo test -p scpi --features arrayvec --offline`  (no test may be edited);
 2. BREAKS the property above: there is a demonstration - ONE self-contained integration-test file using only the public API of the crates - that FAILS with the change applied and PASSES on the unmodified HEAD. The demonstration is run as scpi/tests/demo_seed.rs (`cargo test -p scpi --test demo_seed --offline`, with `--features arrayvec` added automatically if the file mentions arrayvec) or, if it uses scpi_contrib, as scpi-contrib/tests/demo_seed.rs (`cargo test --workspace --test demo_seed --offline`). Look at the existing tests (scpi/tests, scpi-contrib/tests and their util modules, the examples) for how to set up a device, a command tree and a formatter; a demo may not depend on tests/util (copy what you need into the file).
 3. needs SOMETHING SPECIFIC to manifest - a multi-step sequence of operations, an unusual but legal input, a boundary value, a particular tree shape or handler behaviour, a particular feature/configuration (e.g. the fixed-capacity arrayvec types), or two cooperating sites that each look fine alone. It must NOT be something ordinary use would expose at once, and it must not be caught by the existing tests.
 4. reads like something a developer could plausibly commit: a clean-up, a small optimisation, a "simplification", a generalisation, a helper reused at one site too many, a seemingly redundant condition removed, an off-by-one at a boundary, a constant changed, a reordered pair of statements. Keep each diff small (typically 1-15 changed lines). No obviously malicious code, no special-casing of magic inputs.

VARIETY: A, B and C must touch different functions and break the property in different ways (different clauses of the statement where it has several). At least one of them should live in code the anchors above do not name directly (a helper, a provided trait method, a macro-generated impl, the derive crate, another module the behaviour depends on), and at least one should need two cooperating edits or a multi-step history to manifest. Prefer subtle over blunt: the best change is one where a reviewer reading the diff would not see the problem immediately.

PROCEDURE for each change X in A, B, C:
  - edit the source in {wt}; build; run the full suite in both configurations (must pass);
  - write the demonstration, run it (must FAIL with the change); save `git diff -- scpi/src scpi-contrib/src scpi-derive/src > {wt}/out/mutX.diff` (the diff must contain only library-source changes, not the demo file);
  - revert the library change (`git checkout -- .`), run the demonstration again (must PASS on unmodified HEAD);
  - save the demonstration as {wt}/out/demoX.rs and one line describing what the change needs in order to manifest (the triggering input/sequence and the wrong behaviour observed) as {wt}/out/needsX.txt;
  - remove the demo file from the tests directory and make sure `git status` is clean (apart from out/ and target/) before starting the next change.
Check finally that each out/mutX.diff applies cleanly to a clean HEAD with `git apply --check`.

If you discover that the UNMODIFIED library already violates the property for some input (a genuine bug), do not use it as a seed; instead describe it precisely (input, observed, expected) in {wt}/out/BUGS.txt - that is valuable too.

When done, reply with a short summary: for each of A, B, C one or two sentences (what was changed, what triggers it, what goes wrong), plus anything in BUGS.txt. Do not leave background processes running."""

prefix = sys.argv[1]
outdir = sys.argv[2] if len(sys.argv) > 2 else "/tmp/wt/prompts"
os.makedirs(outdir, exist_ok=True)
here = os.path.dirname(os.path.dirname(os.path.abspath(__file__)))
for l in open(os.path.join(here, "properties.jsonl")):
    p = json.loads(l)
    n = p["id"][1:]
    wt = "/tmp/wt/%s%s" % (prefix, n)
    a = p.get("anchors", {})
    parts = ["files: " + ", ".join(a.get("files", []))]
    for k in ("state", "mechanism"):
        for it in a.get(k, []) or []:
            parts.append("%s: %s (%s)" % (k, it.get("name"), it.get("where")))
    if a.get("observe_at"):
        parts.append("observable at: " + ", ".join(a["observe_at"]))
    open(os.path.join(outdir, "%s%s.txt" % (prefix, n)), "w").write(
        T.format(wt=wt, id=p["id"], title=p["title"], statement=p["statement"], quant=p["quantifier"]["text"], anchors="; ".join(parts)))
print("wrote prompts to", outdir)
