#!/usr/bin/env python3
"""Confirm a seeded change independently: in a scratch worktree of /repo (outside /repo and /verif)
apply the patch, run the whole existing suite (must pass), run the demonstration (must fail),
undo the patch and run the demonstration again (must pass). Then store it under /verif/seeded/<id>/.
usage: verify_seed.py <PROP> <LETTER> <srcdir> "<needs>"   (srcdir holds mut<L>.diff, demo<L>.rs)"""
import json, os, re, shutil, subprocess, sys

prop, letter, src = sys.argv[1:4]
needs = sys.argv[4] if len(sys.argv) > 4 else ""
WT = os.environ.get("VERIFY_WT", "/tmp/wt/verify")
sid = "%s-%s" % (prop, letter)
out = "/verif/seeded/" + sid


def sh(cmd, cwd=WT, ok=None):
    r = subprocess.run(cmd, shell=True, cwd=cwd, stdout=subprocess.PIPE, stderr=subprocess.STDOUT, text=True)
    return r.returncode, r.stdout


if not os.path.exists(WT):
    rc, o = sh("git -C /repo worktree add -q --detach %s HEAD" % WT, cwd="/")
    assert rc == 0, o
sh("git checkout -q --detach $(git -C /repo rev-parse HEAD) && git checkout -- . && git clean -fdq -e target")
diff = os.path.join(src, "mut%s.diff" % letter)
demo = os.path.join(src, "demo%s.rs" % letter)
dtxt = open(demo).read()
crate = "scpi-contrib" if ("scpi_contrib" in dtxt) else "scpi"
feat = " --features arrayvec" if (crate == "scpi" and ("arrayvec" in dtxt.lower() or "ArrayErrorQueue" in dtxt)) else ""
log = {"id": sid, "property": prop, "needs": needs, "demo_crate": crate, "base_commit": sh("git -C /repo rev-parse HEAD", cwd="/")[1].strip()}
rc, o = sh("git apply --check %s && git apply %s" % (diff, diff))
assert rc == 0, "patch does not apply: " + o
log["files_changed"] = sh("git diff --stat")[1].strip().splitlines()
rc, o = sh("cargo test --workspace --no-fail-fast --offline 2>&1 | grep -E '^test result|FAILED|panicked|error(\\[|:)' ")
res = re.findall(r"test result: (\w+)\. (\d+) passed; (\d+) failed", o)
log["suite_with_patch"] = {"results": res, "passed": sum(int(r[1]) for r in res), "failed": sum(int(r[2]) for r in res)}
suite_ok = res and all(r[0] == "ok" for r in res) and "error" not in o
tdir = os.path.join(WT, crate, "tests")
shutil.copy(demo, os.path.join(tdir, "demo_seed.rs"))
sel = "--workspace" if crate == "scpi-contrib" else "-p %s%s" % (crate, feat)
rc1, o1 = sh("cargo test %s --test demo_seed --offline 2>&1 | tail -40" % sel)
log["demo_with_patch"] = {"rc": rc1, "tail": o1[-1500:]}
m1 = re.search(r"test result: (\w+)\. (\d+) passed; (\d+) failed", o1)
sh("git checkout -- .")
rc2, o2 = sh("cargo test %s --test demo_seed --offline 2>&1 | tail -15" % sel)
m2 = re.search(r"test result: (\w+)\. (\d+) passed; (\d+) failed", o2)
log["demo_without_patch"] = {"rc": rc2, "tail": o2[-600:]}
os.remove(os.path.join(tdir, "demo_seed.rs"))
confirmed = bool(suite_ok and m1 and m1.group(1) == "FAILED" and m2 and m2.group(1) == "ok")
log["confirmed"] = confirmed
log["ran"] = ["git apply mut.diff", "cargo test --workspace --no-fail-fast --offline (must pass)", "cargo test -p %s%s --test demo_seed --offline (must fail with patch, pass without)" % (crate, feat)]
if confirmed:
    os.makedirs(out, exist_ok=True)
    shutil.copy(diff, os.path.join(out, "patch.diff"))
    shutil.copy(demo, os.path.join(out, "demo.rs"))
    log["demo_with_patch"]["tail"] = log["demo_with_patch"]["tail"][-600:]
    json.dump(log, open(os.path.join(out, "meta.json"), "w"), indent=1)
print(sid, "CONFIRMED" if confirmed else "REJECTED", "suite:", log["suite_with_patch"]["passed"], "passed", log["suite_with_patch"]["failed"], "failed |", m1.group(0) if m1 else o1[-300:], "|", m2.group(0) if m2 else o2[-300:])
