#!/bin/bash
# usage: tools/ref.sh T20-D "C02 C03"  -> runs the given checks on a scratch copy with the refactoring applied, prints violations
id=$1; shift
MUT_LINES=${MUT_LINES:-8} /verif/tools/mut.sh "$*" --patch refactors/$id/patch.diff 2>&1 | grep -v "^VIOLATION" | cut -c1-${CUT:-400}
