#!/bin/bash
# usage: tools/ingest_round3.sh E07   -> verifies /tmp/wt/T07/mut{A,B,C}.diff as seeds C07-{G,H,I} and stores the confirmed ones
set -u
W=$1
P=C${W:1:2}
T=/tmp/wt/ingest-$W
rm -rf $T; mkdir -p $T
declare -A MAP=( [A]=G [B]=H [C]=I )
for K in A B C; do
  L=${MAP[$K]}
  if [ -f /tmp/wt/T${W:1:2}/mut$K.diff ] && [ -f /tmp/wt/T${W:1:2}/demo$K.rs ]; then
    cp /tmp/wt/T${W:1:2}/mut$K.diff $T/mut$L.diff; cp /tmp/wt/T${W:1:2}/demo$K.rs $T/demo$L.rs
    python3 /verif/tools/verify_seed.py $P $L $T "" 2>&1 | tail -1 | cut -c1-250
  else
    echo "$P-$L missing files"
  fi
done
rm -rf $T
