#!/usr/bin/env python3
"""Regenerates /verif/MANIFEST.json from the rule modules present in sa/rules (claimed properties)
and lists every other property under not_applicable with its reason."""
import importlib, json, os, sys

HERE = os.path.dirname(os.path.dirname(os.path.abspath(__file__)))
sys.path.insert(0, HERE)

props = [json.loads(l) for l in open(os.path.join(HERE, "properties.jsonl"))]
checks = []
na = []
PENDING = "check under construction (static-analysis rule set for this property not yet committed); see DESIGN.md section 2"
for p in props:
    pid = p["id"]
    modpath = os.path.join(HERE, "sa", "rules", pid.lower() + ".py")
    if not os.path.exists(modpath):
        na.append({"property_id": pid, "reason": PENDING})
        continue
    m = importlib.import_module("sa.rules." + pid.lower())
    if getattr(m, "NOT_APPLICABLE", None):
        na.append({"property_id": pid, "reason": m.NOT_APPLICABLE})
        continue
    checks.append(
        {
            "property_id": pid,
            "quick_cmd": "./check %s --tier quick" % pid,
            "thorough_cmd": "./check %s --tier thorough" % pid,
            "evidence_file": "evidence/%s.json" % pid,
            "replay_cmd_template": "./check %s --replay {path}" % pid,
            "engine": "scpi-facts+sa",
            "level_claimed": {"category": m.LEVEL, "text": m.LEVEL_TEXT, "design_ref": "DESIGN.md section 2, %s" % pid},
            "level_note": m.LEVEL_NOTE,
            "technique": "static analysis: " + m.TECHNIQUE,
        }
    )
man = {
    "version": 1,
    "setup_cmd": "./setup.sh",
    "hooks": {
        "guard": "scpi_rs_verif",
        "enable": "none needed: the checks analyse the MIR of /repo's working tree as type-checked by `cargo +nightly check` through the scpi-facts wrapper; no instrumentation is compiled in",
        "baseline_off_cmd": "cd /repo && cargo test --workspace --no-fail-fast --offline",
        "source_commits": [],
        "add_only": True,
    },
    "engines": [
        {"name": "scpi-facts", "path": "driver/", "serves_properties": [c["property_id"] for c in checks], "kind_free_text": "rustc_private fact extractor (RUSTC_WORKSPACE_WRAPPER under cargo +nightly check): MIR with resolved callees, constants, ADT tables, crate graph, unsafe blocks"},
        {"name": "sa", "path": "sa/", "serves_properties": [c["property_id"] for c in checks], "kind_free_text": "python3 (stdlib) static-analysis library: CFG/dominators, symbolic def-use expressions, finite-domain abstract interpreter, interval interpreter with bisection; repo-specific rule modules sa/rules/cNN.py"},
    ],
    "checks": checks,
    "notes": "All verdicts are computed from the type-checked program (rustc MIR) of /repo's current working tree; no scpi-rs code is executed. Genuine defects found were repaired by 13 'fix:' commits in /repo, recorded in known_findings.txt. See DESIGN.md.",
    "not_applicable": na,
}
json.dump(man, open(os.path.join(HERE, "MANIFEST.json"), "w"), indent=1)
print("claimed:", [c["property_id"] for c in checks])
print("not_applicable:", [n["property_id"] for n in na])
