#!/bin/bash
# usage: tools/reverify_seeds.sh C01-A C04-B ...  -> re-confirms stored seeds against /repo HEAD (suite passes, demo fails with / passes without)
for s in "$@"; do
  T=/tmp/wt/reverify-$s; rm -rf $T; mkdir -p $T
  L=${s##*-}; P=${s%-*}
  cp /verif/seeded/$s/patch.diff $T/mut$L.diff; cp /verif/seeded/$s/demo.rs $T/demo$L.rs
  needs=$(python3 -c "import json;print(json.load(open('/verif/seeded/$s/meta.json')).get('needs',''))")
  python3 /verif/tools/verify_seed.py $P $L $T "$needs" 2>&1 | tail -1 | cut -c1-160
  rm -rf $T
done
