#!/bin/bash
# usage: tools/ingest_round2.sh D07   -> verifies /tmp/wt/D07/mut{A,B,C}.diff as seeds C07-{D,E,F} and stores the confirmed ones
set -u
W=$1
P=C${W:1:2}
T=/tmp/wt/ingest-$W
rm -rf $T; mkdir -p $T
declare -A MAP=( [A]=D [B]=E [C]=F )
for K in A B C; do
  L=${MAP[$K]}
  if [ -f /tmp/wt/$W/mut$K.diff ] && [ -f /tmp/wt/$W/demo$K.rs ]; then
    cp /tmp/wt/$W/mut$K.diff $T/mut$L.diff; cp /tmp/wt/$W/demo$K.rs $T/demo$L.rs
    python3 /verif/tools/verify_seed.py $P $L $T "" 2>&1 | tail -1 | cut -c1-250
  else
    echo "$P-$L missing files"
  fi
done
rm -rf $T
