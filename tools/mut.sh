#!/bin/bash
# usage: tools/mut.sh "<props>" <file-relative-to-repo> '<python-regex>' '<replacement>'   |  tools/mut.sh "<props>" --patch file.diff
# Applies one edit to a scratch copy of /repo (under /tmp), runs the given checks against it, and removes the copy's edit.
set -e
PROPS="$1"; shift
S=/tmp/vscratch/repo
mkdir -p /tmp/vscratch
rsync -a --delete --exclude target --exclude .git /repo/ $S/
if [ "$1" = "--patch" ]; then
  (cd $S && patch -p1 -s < "$(cd /verif && realpath "$2")") || { echo "PATCH FAILED"; exit 3; }
else
  python3 - "$S/$1" "$2" "$3" <<'PY'
import re,sys
p,pat,rep=sys.argv[1:4]
t=open(p).read()
n=len(re.findall(pat,t,flags=re.S))
if n!=1:
    print("MUT: pattern matched %d times (need 1)"%n); sys.exit(3)
open(p,'w').write(re.sub(pat,rep,t,count=1,flags=re.S))
PY
fi
rc=0
for p in $PROPS; do
  SCPI_REPO=$S SCPI_EVIDENCE_DIR=/tmp/vscratch/evidence /verif/check $p 2>&1 | grep -E "VIOLATION|^\[C..\] (R|tier|anchor|internal)|KNOWN|Traceback|Error|error" | cut -c1-300 | head -${MUT_LINES:-12} || true
done
