#!/usr/bin/env python3
"""Generate the prompt handed to a fresh refactoring-writing agent: an area of the code (the files one property is anchored
in) and a scratch worktree, nothing from /verif's machinery.  usage: refactor_prompt.py <prefix> [outdir]"""
import json, os, sys

T = """You are helping to evaluate a static-analysis tool by writing *behaviour-preserving refactorings* of a Rust library - changes a maintainer could merge that alter how the code is written but not what it does for ANY input. Your scratch area is {wt}, a git worktree (detached HEAD) of scpi-rs (a no_std IEEE 488.2 / SCPI-1999 command parser, command-tree dispatcher, response formatter and status/error-queue commands; workspace crates scpi, scpi-contrib, scpi-derive). Work ONLY inside {wt}. Never read, list or write /repo or /verif, and do not look at other directories under /tmp/wt. No network: always pass --offline to cargo (prefix commands with CARGO_NET_OFFLINE=true).

YOUR AREA is the code behind this behaviour of the library:

  {title}
  ({statement})

  anchored in: {anchors}

YOUR TASK: produce FOUR independent refactorings (A, B, C, D) of library *source* in or around that area (files under scpi/src, scpi-contrib/src, scpi-derive/src - never tests, examples or manifests), each one a diff against the unmodified HEAD, such that each on its own

 1. compiles without new warnings of substance and passes the whole suite: `cargo test --workspace --no-fail-fast --offline` AND `cargo test -p scpi --features arrayvec --offline`, and also builds without default features where the touched code is built that way: `cargo build -p scpi --no-default-features --features arrayvec --offline`;
 2. preserves behaviour EXACTLY for every input, state and configuration: same results, same error codes, same bytes written, same order of side effects, same panics-or-not (no new panic path, no removed check), same public API. If you are not certain a change is behaviour-preserving for all inputs (including malformed ones, empty ones, boundary lengths, values at type limits), do not use it. Explain in one or two sentences per change why it is equivalent.
 3. is a *real* restructuring, not a cosmetic edit: 5-40 changed lines each. Make the four as different from each other as you can. Ideas (use others too):
    - replace a hand-written loop by iterator adaptors or the reverse (`find`, `position`, `any`, `all`, `take_while`, `skip_while`, `map_while`, `rev`, `zip`, `enumerate`, `fold`, `try_fold`, `try_for_each`, `scan`, `peekable`, `last`, `nth`, `step_by`, `chunks`, `windows`, `split`/`splitn`/`rsplit`, `copied`, `cloned`, `filter_map`, `flat_map`);
    - slice and option APIs the file does not use yet: `split_first`, `split_last`, `split_at`, `strip_prefix`, `strip_suffix`, `first`, `last`, `get(..)`, `starts_with`, `ends_with`, `contains`, `iter().rev()`, `is_some_and`, `is_ok_and`, `then`, `then_some`, `map_or`, `map_or_else`, `ok_or`, `and_then`, `or_else`, `unwrap_or_default`, `zip`, `xor`, `take`, `replace`, `filter`, `matches!`, `let ... else`, `if let ... else`, slice patterns (`[a, rest @ ..]`), `core::mem::{{take, replace, swap}}`, `u8::is_ascii_*`, `checked_*`/`saturating_*`/`wrapping_*` arithmetic where provably identical, `core::cmp::{{min, max, Ordering}}`, `RangeInclusive::contains`;
    - split a function into private helpers, or inline a helper into its only caller; move a helper to another module (or into the trait as a provided method when all impls share it; or out of the trait into the impls);
    - re-represent private state (a flag as an enum, a counter as a length difference, an iterator as a sub-slice, two bools as one small enum), keeping every observable result;
    - restructure control flow: early returns vs nested matches, `?` vs explicit match, a `match` with guards vs an if-chain, merged or split match arms, reordered *independent* arms or statements, loop fusion/fission, a `while let` vs `loop`+`break`, a lookup table (`const` array / `static`) vs a `match`;
    - replace a macro-generated body by a call to one generic function (or the reverse), add a private const for a repeated literal, use struct-update syntax, derive vs hand-written impl where identical.
 4. touches, across the four, at least three different functions, and at least one of the four should change code that several parts of the library share (a tokenizer reader, `Parameters`, `ResponseUnit`, a `Formatter` impl, the error type, an `ErrorQueue` impl, a `ScpiDevice` provided method, the mnemonic matcher).

PROCEDURE for each refactoring X in A, B, C, D: edit; build; run both suite configurations and the no-default-features build (all must pass); save `git diff -- scpi/src scpi-contrib/src scpi-derive/src > {wt}/out/refX.diff` and a short `{wt}/out/noteX.txt` (what was restructured, why it is equivalent); then `git checkout -- .` so that the next one starts from the unmodified HEAD. Finally check that each out/refX.diff applies to a clean HEAD with `git apply --check`.

When done, reply with a short summary (one or two sentences per refactoring). Do not leave background processes running."""

prefix = sys.argv[1]
outdir = sys.argv[2] if len(sys.argv) > 2 else "/tmp/wt/prompts"
os.makedirs(outdir, exist_ok=True)
here = os.path.dirname(os.path.dirname(os.path.abspath(__file__)))
for l in open(os.path.join(here, "properties.jsonl")):
    p = json.loads(l)
    n = p["id"][1:]
    wt = "/tmp/wt/%s%s" % (prefix, n)
    a = p.get("anchors", {})
    parts = ["files: " + ", ".join(a.get("files", []))]
    for it in a.get("mechanism", []) or []:
        parts.append("%s (%s)" % (it.get("name"), it.get("where")))
    open(os.path.join(outdir, "%s%s.txt" % (prefix, n)), "w").write(T.format(wt=wt, title=p["title"], statement=p["statement"][:600], anchors="; ".join(parts)))
print("wrote prompts to", outdir)
