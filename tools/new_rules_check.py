#!/usr/bin/env python3
"""Run only the whole-message and history rules (all corpora / kinds) in one process - used by the refactoring matrix to
validate new rules against the whole silent corpus without re-running every older rule.  Prints one line per rule
instance that raises an alarm; exit 1 if any."""
import os, sys
HERE = os.path.dirname(os.path.dirname(os.path.abspath(__file__)))
sys.path.insert(0, HERE)
os.chdir(HERE)
from sa import report, facts
from sa.rules import msgtable as MT, histtable as HT

run = report.Run("NEW", "quick", "other", "whole-message and history tables")
try:
    for rule, name in (("R02.10", "resolve"), ("R05.11", "abort"), ("R06.9", "params"), ("R10.10", "framing"), ("R11.9", "capacity")):
        MT.check(run, rule, name, "quick", name, 1)
    MT.check_tokens(run, "R04.9", "quick", 1)
    for rule, kind in (("R13.14", "errors"), ("R15.8", "registers"), ("R16.9", "status")):
        HT.check(run, rule, kind, "quick", kind, 1)
except facts.AnchorLost as e:
    run.anchor_lost("anchor", str(e))
except Exception:
    import traceback
    traceback.print_exc()
    run.violation("internal", "ENGINE-ERROR", traceback.format_exc().splitlines()[-1])
for v in run.violations:
    print("[NEW] %s: %s\n    %s" % (v["rule"], v["key"], v["detail"][:600]))
sys.exit(1 if run.violations else 0)
