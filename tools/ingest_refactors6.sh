#!/bin/bash
# usage: tools/ingest_refactors6.sh 01 02 ...  -> verifies /tmp/wt/W<nn>/out/ref{A..D}.diff (applies to HEAD, whole suite passes in both
# configurations) and stores the good ones as refactors/W<nn>-{A..D}/patch.diff (round 6)
for N in "$@"; do
  WT=/tmp/wt/rverify-$N
  [ -d $WT ] || git -C /repo worktree add -q --detach $WT HEAD
  for K in A B C D; do
    f=/tmp/wt/W$N/out/ref$K.diff
    if [ ! -s "$f" ]; then echo "W$N-$K missing"; continue; fi
    (cd $WT && git checkout -q -- . && git apply --check "$f" 2>/dev/null && git apply "$f") || { echo "W$N-$K does not apply"; continue; }
    r1=$(cd $WT && CARGO_NET_OFFLINE=true cargo test --workspace --no-fail-fast --offline 2>&1 | grep -E "^test result|^error" | awk '{p+=$4; f+=$6; if ($1=="error:" || $1 ~ /^error/) e+=1} END {print p" "f" "e+0}')
    r2=$(cd $WT && CARGO_NET_OFFLINE=true cargo test -p scpi --features arrayvec --offline 2>&1 | grep -E "^test result|^error" | awk '{p+=$4; f+=$6; if ($1 ~ /^error/) e+=1} END {print p" "f" "e+0}')
    (cd $WT && git checkout -q -- .)
    if [ "$r1" = "263 0 0" ] && [ "$r2" = "168 0 0" ]; then
      mkdir -p /verif/refactors/W$N-$K && cp "$f" /verif/refactors/W$N-$K/patch.diff && cp /tmp/wt/W$N/out/note$K.txt /verif/refactors/W$N-$K/note.txt 2>/dev/null; echo "W$N-$K ok"
    else
      echo "W$N-$K REJECTED suite: [$r1] [$r2]"
    fi
  done
  git -C /repo worktree remove --force $WT
done
