#!/bin/bash
# Build the fact extractor (offline, nightly toolchain with rustc-dev) and warm the fact/dependency caches.
set -e
cd "$(dirname "$0")"
export CARGO_NET_OFFLINE=true
(cd driver && cargo build --offline 2>&1 | tail -3)
test -x driver/target/debug/scpi-facts
python3 -m sa.extract dflt examples witness noalloc >/dev/null
echo "setup ok"
