//! Witness enum definitions for property C20: only compiled and analysed, never run.
//! They use scpi-rs as an external user would (`#[derive(ScpiEnum)]`).
#![no_std]
use scpi_derive::ScpiEnum;

/// unit variants, with and without numeric suffix, siblings differing only in the suffix,
/// an all-upper-case mnemonic with suffix, and a mnemonic without lower-case tail
#[derive(Copy, Clone, PartialEq, Debug, ScpiEnum)]
pub enum Format {
    #[scpi(mnemonic = b"BINary")]
    Binary,
    #[scpi(mnemonic = b"REAL")]
    Real,
    #[scpi(mnemonic = b"ASCii1")]
    Ascii1,
    #[scpi(mnemonic = b"ASCii2")]
    Ascii2,
    #[scpi(mnemonic = b"L125")]
    L125,
    #[scpi(mnemonic = b"CH2")]
    Ch2,
}

/// single-field variants (payload defaulted by the derive), suffixed and unsuffixed
#[derive(Copy, Clone, PartialEq, Debug, ScpiEnum)]
pub enum Source {
    #[scpi(mnemonic = b"VOLTage")]
    Voltage(u8),
    #[scpi(mnemonic = b"CURRent1")]
    Current1(i16),
    #[scpi(mnemonic = b"CURRent2")]
    Current2(f32),
    #[scpi(mnemonic = b"BUS")]
    Bus,
}

/// a single variant
#[derive(Copy, Clone, PartialEq, Debug, ScpiEnum)]
pub enum Only {
    #[scpi(mnemonic = b"IMMediate")]
    Immediate,
}

/// twelve-character mnemonics and siblings where the unsuffixed one is declared first
#[derive(Copy, Clone, PartialEq, Debug, ScpiEnum)]
pub enum Channel {
    #[scpi(mnemonic = b"CHANnel")]
    Channel,
    #[scpi(mnemonic = b"CHANnel2")]
    Channel2,
    #[scpi(mnemonic = b"CHANnel12")]
    Channel12,
    #[scpi(mnemonic = b"ABCDEFghijkl")]
    Twelve,
    #[scpi(mnemonic = b"EXTernal10")]
    External10,
}

/// numeric suffixes of several digits ending in 1, containing 0, and a three-digit one: the suffix is a number, not a
/// string that may be trimmed digit by digit (`SLOT11` is not `SLOT1` + `1`)
#[derive(Copy, Clone, PartialEq, Debug, ScpiEnum)]
pub enum Slot {
    #[scpi(mnemonic = b"SLOT1")]
    Slot1,
    #[scpi(mnemonic = b"SLOT11")]
    Slot11,
    #[scpi(mnemonic = b"SLOT21")]
    Slot21,
    #[scpi(mnemonic = b"SLOT3")]
    Slot3,
    #[scpi(mnemonic = b"SLOT31")]
    Slot31,
    #[scpi(mnemonic = b"SLOT101")]
    Slot101,
    #[scpi(mnemonic = b"OUTPut10")]
    Output10,
}

/// a suffix of zero next to the default suffix: `PORT0` is neither `PORT` nor `PORT1`, and its zero is a digit like any
/// other (a writer or matcher that trims zeros would turn it into the unsuffixed form - seed C09-M)
#[derive(Copy, Clone, PartialEq, Debug, ScpiEnum)]
pub enum Port {
    #[scpi(mnemonic = b"PORT0")]
    Port0,
    #[scpi(mnemonic = b"PORT1")]
    Port1,
    #[scpi(mnemonic = b"PORT20")]
    Port20,
    #[scpi(mnemonic = b"OUTPut0")]
    Output0,
}
