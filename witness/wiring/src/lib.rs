//! Witness device wired the documented way (fixed-capacity queue and formatter); compiled and analysed only.
use scpi::error::{Error, ErrorQueue, Result};
use scpi::tree::prelude::*;
use scpi::Root;
use scpi_contrib::ieee488::prelude::*;
use scpi_contrib::scpi1999::prelude::*;
use scpi_contrib::{ieee488_cls, ieee488_ese, ieee488_esr, ieee488_idn, ieee488_opc, ieee488_rst, ieee488_sre, ieee488_stb, ieee488_tst, ieee488_wai, scpi_status, scpi_system};

pub struct Dev {
    pub esr: u8,
    pub ese: u8,
    pub sre: u8,
    pub operation: EventRegister,
    pub questionable: EventRegister,
    pub errors: scpi::error::ArrayErrorQueue<8>,
}

impl Device for Dev {
    fn handle_error(&mut self, err: Error) {
        self.push_error(err);
    }
}

impl ScpiDevice for Dev {}

impl GetEventRegister<Operation> for Dev {
    fn register(&self) -> &EventRegister {
        &self.operation
    }
    fn register_mut(&mut self) -> &mut EventRegister {
        &mut self.operation
    }
}

impl GetEventRegister<Questionable> for Dev {
    fn register(&self) -> &EventRegister {
        &self.questionable
    }
    fn register_mut(&mut self) -> &mut EventRegister {
        &mut self.questionable
    }
}

impl ErrorQueue for Dev {
    fn push_back_error(&mut self, err: Error) {
        self.errors.push_back_error(err)
    }
    fn pop_front_error(&mut self) -> Option<Error> {
        self.errors.pop_front_error()
    }
    fn num_errors(&self) -> usize {
        self.errors.num_errors()
    }
    fn clear_errors(&mut self) {
        self.errors.clear_errors()
    }
}

impl IEEE4882 for Dev {
    fn stb(&self) -> u8 {
        self.scpi_stb()
    }
    fn sre(&self) -> u8 {
        self.sre
    }
    fn set_sre(&mut self, value: u8) {
        self.sre = value
    }
    fn esr(&self) -> u8 {
        self.esr
    }
    fn set_esr(&mut self, value: u8) {
        self.esr = value
    }
    fn ese(&self) -> u8 {
        self.ese
    }
    fn set_ese(&mut self, value: u8) {
        self.ese = value
    }
    fn tst(&mut self) -> Result<()> {
        Ok(())
    }
    fn rst(&mut self) -> Result<()> {
        Ok(())
    }
    fn cls(&mut self) -> Result<()> {
        self.scpi_cls()
    }
    fn opc(&mut self) -> Result<()> {
        self.scpi_opc()
    }
}

pub const TREE: Node<Dev> = Root![
    ieee488_cls!(),
    ieee488_ese!(),
    ieee488_esr!(),
    ieee488_idn!(b"a", b"b", b"c", b"d"),
    ieee488_opc!(),
    ieee488_rst!(),
    ieee488_sre!(),
    ieee488_stb!(),
    ieee488_tst!(),
    ieee488_wai!(),
    scpi_status!(),
    scpi_system!()
];
