//! Witness handlers that pull typed parameters and answer with what they were given: compiled against the repository
//! and analysed (folded end to end by sa/rules/echotable.py), never run. Each handler is what a user of the library
//! would write for a command with one parameter of that type.
use core::marker::PhantomData;
use scpi::error::Result;
use scpi::parser::expression::channel_list::{ChannelList, Token as ChToken};
use scpi::parser::expression::numeric_list::{NumericList, Token as NumToken};
use scpi::tree::prelude::*;
use scpi_contrib::scpi1999::NumericValue;
use scpi_derive::ScpiEnum;

pub struct Dev;
impl Device for Dev {
    fn handle_error(&mut self, _err: Error) {}
}

/// `X? <value>`: the value converted to T, written back as T
pub struct Echo<T>(PhantomData<T>);
impl<T> Echo<T> {
    pub const fn new() -> Self {
        Self(PhantomData)
    }
}
impl<T> Command<Dev> for Echo<T>
where
    T: for<'a> TryFrom<Token<'a>, Error = Error> + ResponseData,
{
    fn query(&self, _d: &mut Dev, _c: &mut Context, mut params: Parameters, mut response: ResponseUnit) -> Result<()> {
        let x: T = params.next_data()?;
        response.data(x).finish()
    }
}

/// `X? [<value>]`: optional parameter, 42 when absent
pub struct OptU8;
impl Command<Dev> for OptU8 {
    fn query(&self, _d: &mut Dev, _c: &mut Context, mut params: Parameters, mut response: ResponseUnit) -> Result<()> {
        let x: Option<u8> = params.next_optional_data()?;
        response.data(x.unwrap_or(42)).finish()
    }
}
pub struct OptI32;
impl Command<Dev> for OptI32 {
    fn query(&self, _d: &mut Dev, _c: &mut Context, mut params: Parameters, mut response: ResponseUnit) -> Result<()> {
        let x: Option<i32> = params.next_optional_data()?;
        response.data(x.unwrap_or(42)).finish()
    }
}

/// floats are answered as their bit pattern (what the float *writer* prints is C09's business)
pub struct Bits32;
impl Command<Dev> for Bits32 {
    fn query(&self, _d: &mut Dev, _c: &mut Context, mut params: Parameters, mut response: ResponseUnit) -> Result<()> {
        let x: f32 = params.next_data()?;
        response.data(x.to_bits()).finish()
    }
}
pub struct Bits64;
impl Command<Dev> for Bits64 {
    fn query(&self, _d: &mut Dev, _c: &mut Context, mut params: Parameters, mut response: ResponseUnit) -> Result<()> {
        let x: f64 = params.next_data()?;
        response.data(x.to_bits()).finish()
    }
}

/// string, block, character and expression data, answered in kind
pub struct EchoStr;
impl Command<Dev> for EchoStr {
    fn query(&self, _d: &mut Dev, _c: &mut Context, mut params: Parameters, mut response: ResponseUnit) -> Result<()> {
        let x: &[u8] = params.next_data()?;
        response.data(x).finish()
    }
}
pub struct EchoArb;
impl Command<Dev> for EchoArb {
    fn query(&self, _d: &mut Dev, _c: &mut Context, mut params: Parameters, mut response: ResponseUnit) -> Result<()> {
        let x: Arbitrary = params.next_data()?;
        response.data(x).finish()
    }
}
pub struct EchoChr;
impl Command<Dev> for EchoChr {
    fn query(&self, _d: &mut Dev, _c: &mut Context, mut params: Parameters, mut response: ResponseUnit) -> Result<()> {
        let x: Character = params.next_data()?;
        response.data(x).finish()
    }
}
pub struct EchoExpr;
impl Command<Dev> for EchoExpr {
    fn query(&self, _d: &mut Dev, _c: &mut Context, mut params: Parameters, mut response: ResponseUnit) -> Result<()> {
        let x: Expression = params.next_data()?;
        response.data(x).finish()
    }
}

/// a numeric_value resolved against 10..=100 with default 50
pub struct Numeric;
impl Command<Dev> for Numeric {
    fn query(&self, _d: &mut Dev, _c: &mut Context, mut params: Parameters, mut response: ResponseUnit) -> Result<()> {
        let x: NumericValue<u8> = params.next_data()?;
        response.data(x.build().max(100).min(10).default(50).finish()?).finish()
    }
}
/// the same without a configured default
pub struct NumericNoDefault;
impl Command<Dev> for NumericNoDefault {
    fn query(&self, _d: &mut Dev, _c: &mut Context, mut params: Parameters, mut response: ResponseUnit) -> Result<()> {
        let x: NumericValue<i16> = params.next_data()?;
        response.data(x.finish_with(1000, -1000)?).finish()
    }
}

#[derive(Copy, Clone, PartialEq, Debug, ScpiEnum)]
pub enum Mode {
    #[scpi(mnemonic = b"BINary")]
    Binary,
    #[scpi(mnemonic = b"REAL")]
    Real,
    #[scpi(mnemonic = b"ASCii1")]
    Ascii1,
    #[scpi(mnemonic = b"ASCii2")]
    Ascii2,
    #[scpi(mnemonic = b"CH2")]
    Ch2,
}

/// a numeric list: every entry answered as `value` or `from,to` pairs flattened - here: the number of entries and the
/// first and last number as u16, so that order and range ends are visible
pub struct NumList;
impl Command<Dev> for NumList {
    fn query(&self, _d: &mut Dev, _c: &mut Context, mut params: Parameters, mut response: ResponseUnit) -> Result<()> {
        let list: NumericList = params.next_data()?;
        let mut n = 0u16;
        let mut sum = 0u32;
        for item in list {
            match item? {
                NumToken::Numeric(a) => {
                    let a: u16 = a.try_into()?;
                    sum = sum * 7 + a as u32;
                }
                NumToken::NumericRange(a, b) => {
                    let a: u16 = a.try_into()?;
                    let b: u16 = b.try_into()?;
                    sum = (sum * 7 + a as u32) * 7 + b as u32 + 1000;
                }
            }
            n += 1;
        }
        response.data(n).data(sum).finish()
    }
}

/// a channel list of two-dimensional specs
pub struct ChanList;
impl Command<Dev> for ChanList {
    fn query(&self, _d: &mut Dev, _c: &mut Context, mut params: Parameters, mut response: ResponseUnit) -> Result<()> {
        let list: ChannelList = params.next_data()?;
        let mut n = 0u16;
        let mut sum = 0u32;
        for item in list {
            match item? {
                ChToken::ChannelSpec(spec) => {
                    let (a, b): (usize, usize) = spec.try_into()?;
                    sum = (sum * 7 + a as u32) * 7 + b as u32;
                }
                ChToken::ChannelRange(from, to) => {
                    let (a, b): (usize, usize) = from.try_into()?;
                    let (c, d): (usize, usize) = to.try_into()?;
                    sum = (((sum * 7 + a as u32) * 7 + b as u32) * 7 + c as u32) * 7 + d as u32 + 1000;
                }
                ChToken::PathName(_) => sum += 500_000,
                _ => sum += 900_000,
            }
            n += 1;
        }
        response.data(n).data(sum).finish()
    }
}

pub const TREE: Node<Dev> = Branch {
    name: b"",
    default: false,
    sub: &[
        Leaf { name: b"*U8", default: false, handler: &Echo::<u8>::new() },
        Leaf { name: b"*I8", default: false, handler: &Echo::<i8>::new() },
        Leaf { name: b"*U16", default: false, handler: &Echo::<u16>::new() },
        Leaf { name: b"*I16", default: false, handler: &Echo::<i16>::new() },
        Leaf { name: b"*U32", default: false, handler: &Echo::<u32>::new() },
        Leaf { name: b"*I32", default: false, handler: &Echo::<i32>::new() },
        Leaf { name: b"*U64", default: false, handler: &Echo::<u64>::new() },
        Leaf { name: b"*I64", default: false, handler: &Echo::<i64>::new() },
        Leaf { name: b"*USIZE", default: false, handler: &Echo::<usize>::new() },
        Leaf { name: b"*ISIZE", default: false, handler: &Echo::<isize>::new() },
        Leaf { name: b"*BOOL", default: false, handler: &Echo::<bool>::new() },
        Leaf { name: b"*OPTU8", default: false, handler: &OptU8 },
        Leaf { name: b"*OPTI32", default: false, handler: &OptI32 },
        Leaf { name: b"*F32", default: false, handler: &Bits32 },
        Leaf { name: b"*F64", default: false, handler: &Bits64 },
        Leaf { name: b"*STR", default: false, handler: &EchoStr },
        Leaf { name: b"*ARB", default: false, handler: &EchoArb },
        Leaf { name: b"*CHR", default: false, handler: &EchoChr },
        Leaf { name: b"*EXPR", default: false, handler: &EchoExpr },
        Leaf { name: b"*NUM", default: false, handler: &Numeric },
        Leaf { name: b"*NUMND", default: false, handler: &NumericNoDefault },
        Leaf { name: b"*MODE", default: false, handler: &Echo::<Mode>::new() },
        Leaf { name: b"*NLIST", default: false, handler: &NumList },
        Leaf { name: b"*CLIST", default: false, handler: &ChanList },
    ],
};

/// Every form of the tree-building macros, and the same tree from the `const fn` constructors (rule R02.11: both must
/// evaluate to the documented node structure - in particular `Branch!(name => handler; ..)` puts the handler in a default
/// leaf with an *empty* name in front of the children).
pub const MACRO_TREE: Node<Dev> = scpi::Root![
    scpi::Leaf!(b"LEAf" => &EchoChr),
    scpi::Leaf!(default b"DLEaf" => &EchoStr),
    scpi::Branch!(b"BRANch"; scpi::Leaf!(b"SUB" => &EchoChr), scpi::Leaf!(b"OTHer" => &EchoStr)),
    {
        use scpi::Leaf;
        scpi::Branch!(b"HBRanch" => &EchoArb; scpi::Leaf!(b"SUB" => &EchoChr))
    },
    scpi::Branch!(default b"DBRanch"; scpi::Leaf!(default b"SUB" => &EchoChr))
];

pub const CTOR_TREE: Node<Dev> = Node::root(&[
    Node::leaf(b"LEAf", &EchoChr),
    Node::default_leaf(b"DLEaf", &EchoStr),
    Node::branch(b"BRANch", &[Node::leaf(b"SUB", &EchoChr), Node::leaf(b"OTHer", &EchoStr)]),
    Node::branch(b"HBRanch", &[Node::default_leaf(b"", &EchoArb), Node::leaf(b"SUB", &EchoChr)]),
    Node::default_branch(b"DBRanch", &[Node::default_leaf(b"SUB", &EchoChr)]),
]);
